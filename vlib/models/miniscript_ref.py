"""BIP379 miniscript reference model (stdlib only, no btclib).

Four tables written from the specification and from Bitcoin Core's miniscript.{h,cpp}, each in a form of its own:

* typing          -- `combine_type()` / `leaf_type()`: one boolean equation per property letter (BIP379's correctness, timelock and
                     malleability tables); the internal "x" property is not modelled, its only effect being the script of `v:`;
* translation     -- `_pattern()` / `_assemble()`: BIP379's translation table, bottom-up; `v:` rewrites the last opcode of what it wraps
                     or appends OP_VERIFY (the table's own wording), no VERIFY state is handed down;
* static bounds   -- `_bounds()`: one generic (sat, dsat) recursion shared by the three additive measures (keys of the CHECKMULTISIGs that
                     run, witness elements, witness bytes) parameterised by the leaf costs; the static op count is read off the compiled
                     script; Core's SatInfo recursion gives the stack depth reached during execution;
* semantics       -- `holds()`: the spending condition as a boolean function of what is available (keys that sign, preimages, lock times
                     judged by BIP65 / BIP68+112).
`parse()` / `text()` read and write BIP379's text (sugar included); `verdicts()` is Core's IsValid / IsValidTopLevel / IsSane by component.

An expression is JSON: [name, args...]
    ["0"] ["1"] ["pk_k", key] ["pk_h", key] ["older", n] ["after", n] ["sha256"|"hash256"|"ripemd160"|"hash160", digest]
    ["multi"|"multi_a", k, [key, ...]] ["a"|"s"|"c"|"d"|"v"|"j"|"n", X] ["and_v"|"and_b"|"or_b"|"or_c"|"or_d"|"or_i", X, Y]
    ["andor", X, Y, Z] ["thresh", k, [X, ...]]
a key is an int (index into the harness key table) or hex (33-byte SEC, or 32-byte x-only); a digest is an int (index of a harness
preimage) or hex.  The sugar (pk, pkh, t:, l:, u:, and_n) exists in the text only.
"""

from __future__ import annotations

import hashlib
from collections import deque

from . import fastec

P2WSH = "P2WSH"
TAPSCRIPT = "tapscript"

WRAPPERS = ("a", "s", "c", "d", "v", "j", "n")
BINARY = ("and_v", "and_b", "or_b", "or_c", "or_d", "or_i")
HASHES = {"sha256": 32, "hash256": 32, "ripemd160": 20, "hash160": 20}
LEAVES = ("0", "1", "pk_k", "pk_h", "older", "after", "multi", "multi_a", *HASHES)
FRAGMENTS = (*LEAVES, *WRAPPERS, *BINARY, "andor", "thresh")

LOCKTIME_THRESHOLD = 500_000_000
SEQ_DISABLE = 1 << 31
SEQ_TYPE = 1 << 22
SEQ_MASK = 0xFFFF
SEQ_FINAL = 0xFFFFFFFF

MAX_STANDARD_P2WSH_SCRIPT_SIZE = 3600
MAX_STANDARD_P2WSH_STACK_ITEMS = 100
MAX_OPS_PER_SCRIPT = 201
MAX_STACK_SIZE = 1000
MAX_PUBKEYS_PER_MULTISIG = 20
MAX_PUBKEYS_PER_MULTI_A = 999


def _compact_size_len(n: int) -> int:
    return 1 if n < 253 else 3 if n <= 0xFFFF else 5 if n <= 0xFFFFFFFF else 9


def max_script_size(ctx: str) -> int:
    """Core's MaxScriptSize(): policy for P2WSH, derived from the standard transaction weight for tapscript."""
    if ctx != TAPSCRIPT:
        return MAX_STANDARD_P2WSH_SCRIPT_SIZE
    tx_overhead = 4 + 4
    txin_no_witness = 36 + 4 + 1
    p2wsh_txout = 8 + 1 + 1 + 33
    body_leeway = (tx_overhead + 1 + txin_no_witness + 1 + p2wsh_txout) * 4 + 2
    control_max = 33 + 32 * 128
    max_sat = _compact_size_len(MAX_STACK_SIZE) + (1 + 65) * MAX_STACK_SIZE + _compact_size_len(control_max) + control_max
    room = 400_000 - body_leeway - max_sat
    return room - _compact_size_len(room)


# ----------------------------------------------------------------------------------------------- keys, digests
_KEY_BASE = int.from_bytes(hashlib.sha256(b"C15 miniscript key base").digest(), "big") % (fastec.N // 2)
_KEYS: list[tuple[int, bytes]] = []  # (private key, 33-byte SEC)


def key_pair(i: int) -> tuple[int, bytes]:
    """Harness key number i: private key _KEY_BASE + i (public keys by repeated addition of G, cached)."""
    while len(_KEYS) <= i:
        d = _KEY_BASE + len(_KEYS)
        if not _KEYS:
            Q = fastec.mul(d, fastec.G)
        else:
            prev = fastec.parse_pubkey(_KEYS[-1][1])
            Q = fastec.to_affine(fastec.jadd((prev[0], prev[1], 1), (fastec.G[0], fastec.G[1], 1)))
        _KEYS.append((d, bytes([2 + (Q[1] & 1)]) + Q[0].to_bytes(32, "big")))
    return _KEYS[i]


def key_bytes(key, tap: bool) -> bytes:
    """The bytes the script holds for a key argument: 33-byte SEC under P2WSH, 32-byte x-only under tapscript."""
    sec = key_pair(key)[1] if isinstance(key, int) else bytes.fromhex(key)
    if tap:
        return sec[-32:]
    return sec


def key_text(key, tap: bool, xonly: bool = True) -> str:
    """How the key is written in the expression (a tapscript key may be written in 32 or in 33 bytes)."""
    if not isinstance(key, int):
        return key
    sec = key_pair(key)[1]
    return sec[1:].hex() if tap and xonly else sec.hex()


def preimage(i: int) -> bytes:
    return hashlib.sha256(b"C15 miniscript preimage %d" % i).digest()


def hash_fn(name: str, data: bytes) -> bytes:
    if name == "sha256":
        return hashlib.sha256(data).digest()
    if name == "hash256":
        return hashlib.sha256(hashlib.sha256(data).digest()).digest()
    if name == "ripemd160":
        return hashlib.new("ripemd160", data).digest()
    if name == "hash160":
        return hashlib.new("ripemd160", hashlib.sha256(data).digest()).digest()
    raise ValueError(name)


def digest_bytes(name: str, arg) -> bytes:
    return hash_fn(name, preimage(arg)) if isinstance(arg, int) else bytes.fromhex(arg)


# ----------------------------------------------------------------------------------------------- shape
def subs(e) -> list:
    name = e[0]
    if name in WRAPPERS:
        return [e[1]]
    if name in BINARY:
        return [e[1], e[2]]
    if name == "andor":
        return [e[1], e[2], e[3]]
    if name == "thresh":
        return list(e[2])
    return []


def _fresh(e):
    """A copy that shares no list with itself."""
    import json

    return json.loads(json.dumps(e))


def keys_of(e) -> list:
    """Every key argument, left to right."""
    out, stack = [], [e]
    while stack:
        x = stack.pop()
        if x[0] in ("pk_k", "pk_h"):
            out.append(x[1])
        elif x[0] in ("multi", "multi_a"):
            out.extend(x[2])
        stack.extend(reversed(subs(x)))
    return out


def walk(e):
    stack = [e]
    while stack:
        x = stack.pop()
        yield x
        stack.extend(reversed(subs(x)))


def shape_ok(e, ctx: str) -> bool:
    """The argument ranges BIP379's table states next to the typing requirements (every node)."""
    tap = ctx == TAPSCRIPT
    for x in walk(e):
        name = x[0]
        if name in ("older", "after") and not 1 <= x[1] < 2**31:
            return False
        if name == "multi" and (tap or not 1 <= x[1] <= len(x[2]) <= MAX_PUBKEYS_PER_MULTISIG):
            return False
        if name == "multi_a" and (not tap or not 1 <= x[1] <= len(x[2]) <= MAX_PUBKEYS_PER_MULTI_A):
            return False
        if name == "thresh" and not 1 <= x[1] <= len(x[2]):
            return False
    return True


# ----------------------------------------------------------------------------------------------- typing
def _leaf_props(e, tap: bool) -> str:
    name = e[0]
    if name == "0":
        return "Bzudesmk"
    if name == "1":
        return "Bzufmk"
    if name == "pk_k":
        return "Konudesmk"
    if name == "pk_h":
        return "Knudesmk"
    if name == "older":
        return "Bzfmk" + ("g" if e[1] & SEQ_TYPE else "h")
    if name == "after":
        return "Bzfmk" + ("i" if e[1] >= LOCKTIME_THRESHOLD else "j")
    if name in HASHES:
        return "Bonudmk"
    if name == "multi":
        return "Bnudesmk"
    if name == "multi_a":
        return "Budesmk"
    raise ValueError(name)


def _mix(x: frozenset, y: frozenset) -> bool:
    """An and of the two needs a height-based and a time-based lock of the same kind."""
    return ("g" in x and "h" in y) or ("h" in x and "g" in y) or ("i" in x and "j" in y) or ("j" in x and "i" in y)


def combine_type(name: str, e, ts: list, tap: bool) -> frozenset | None:
    """Type of fragment `name` (e[1] its threshold where it has one) over subexpressions of the types `ts`; None where ill-typed."""
    if any(t is None for t in ts):
        return None
    return _combine(name, e, ts, tap)


def leaf_type(e, tap: bool) -> frozenset:
    return frozenset(_leaf_props(e, tap))


def _combine(name: str, e, ts: list[frozenset], tap: bool) -> frozenset | None:
    """Type of a fragment with subexpressions, None where the requirement column is not met."""
    out: set[str] = set()

    def has(t, letters):
        return all(c in t for c in letters)

    def put(letter, cond):
        if cond:
            out.add(letter)

    locks = set().union(*ts) & set("ghij")
    if name in WRAPPERS:
        (x,) = ts
        out |= locks
        put("k", "k" in x)
        if name == "a":
            if not has(x, "B"):
                return None
            out.add("W")
            for c in "udfems":
                put(c, c in x)
        elif name == "s":
            if not has(x, "Bo"):
                return None
            out.add("W")
            for c in "udfems":
                put(c, c in x)
        elif name == "c":
            if not has(x, "K"):
                return None
            out |= {"B", "u", "s"}
            for c in "ondfem":
                put(c, c in x)
        elif name == "d":
            if not has(x, "Vz"):
                return None
            out |= {"B", "o", "n", "d", "e"}  # X is V, hence f, hence the only dissatisfaction is the empty selector
            put("u", tap)  # MINIMALIF is consensus under tapscript only
            for c in "ms":
                put(c, c in x)
        elif name == "v":
            if not has(x, "B"):
                return None
            out |= {"V", "f"}
            for c in "zonms":
                put(c, c in x)
        elif name == "j":
            if not has(x, "Bn"):
                return None
            out |= {"B", "n", "d"}
            put("e", "f" in x)
            for c in "oums":
                put(c, c in x)
        elif name == "n":
            if not has(x, "B"):
                return None
            out |= {"B", "u"}
            for c in "zondfems":
                put(c, c in x)
        return frozenset(out)

    if name in ("and_v", "and_b"):
        x, y = ts
        out |= locks
        put("k", "k" in x and "k" in y and not _mix(x, y))
        put("z", "z" in x and "z" in y)
        put("o", ("z" in x and "o" in y) or ("z" in y and "o" in x))
        put("n", "n" in x or ("z" in x and "n" in y))
        put("m", "m" in x and "m" in y)
        put("s", "s" in x or "s" in y)
        if name == "and_v":
            if "V" not in x or not (set("BKV") & y):
                return None
            out |= set("BKV") & y
            put("u", "u" in y)
            put("f", "s" in x or "f" in y)
        else:
            if "B" not in x or "W" not in y:
                return None
            out |= {"B", "u"}
            put("d", "d" in x and "d" in y)
            put("f", ("f" in x and "f" in y) or has(x, "sf") or has(y, "sf"))
            put("e", has(x, "es") and has(y, "es"))
        return frozenset(out)

    if name in ("or_b", "or_c", "or_d", "or_i"):
        x, z = ts
        out |= locks
        put("k", "k" in x and "k" in z)  # the branches are alternatives: a mix is fine
        put("s", "s" in x and "s" in z)
        signed = "s" in x or "s" in z
        if name == "or_b":
            if not (has(x, "Bd") and has(z, "Wd")):
                return None
            out |= {"B", "d", "u"}
            put("z", "z" in x and "z" in z)
            put("o", ("z" in x and "o" in z) or ("z" in z and "o" in x))
            put("e", "e" in x and "e" in z)
            put("m", has(x, "me") and has(z, "me") and signed)
        elif name == "or_c":
            if not (has(x, "Bdu") and "V" in z):
                return None
            out |= {"V", "f"}
            put("z", "z" in x and "z" in z)
            put("o", "o" in x and "z" in z)
            put("m", has(x, "me") and "m" in z and signed)
        elif name == "or_d":
            if not (has(x, "Bdu") and "B" in z):
                return None
            out.add("B")
            put("z", "z" in x and "z" in z)
            put("o", "o" in x and "z" in z)
            for c in "dufe":
                put(c, c in z)
            put("m", has(x, "me") and "m" in z and signed)
        else:
            same = set("BKV") & x & z
            if not same:
                return None
            out |= same
            put("o", "z" in x and "z" in z)
            put("u", "u" in x and "u" in z)
            put("d", "d" in x or "d" in z)
            put("f", "f" in x and "f" in z)
            put("e", ("e" in x and "f" in z) or ("f" in x and "e" in z))
            put("m", "m" in x and "m" in z and signed)
        return frozenset(out)

    if name == "andor":
        x, y, z = ts
        same = set("BKV") & y & z
        if not has(x, "Bdu") or not same:
            return None
        out |= same | locks
        put("k", "k" in x and "k" in y and "k" in z and not _mix(x, y))
        put("z", "z" in x and "z" in y and "z" in z)
        put("o", ("z" in x and "o" in y and "o" in z) or ("o" in x and "z" in y and "z" in z))
        put("u", "u" in y and "u" in z)
        put("d", "d" in z)
        put("s", "s" in z and ("s" in x or "s" in y))
        put("f", "f" in z and ("s" in x or "f" in y))
        put("e", "e" in z and ("s" in x or "f" in y))
        put("m", has(x, "me") and "m" in y and "m" in z and ("s" in x or "s" in y or "s" in z))
        return frozenset(out)

    if name == "thresh":
        k = e[1]
        n = len(ts)
        for pos, t in enumerate(ts):
            if not has(t, "Wdu" if pos else "Bdu"):
                return None
        out |= {"B", "d", "u"} | locks
        consumed = [0 if "z" in t else 1 if "o" in t else 2 for t in ts]
        put("z", sum(consumed) == 0)
        put("o", sum(consumed) == 1)
        unsigned = sum(1 for t in ts if "s" not in t)
        all_e = all("e" in t for t in ts)
        all_m = all("m" in t for t in ts)
        put("s", unsigned <= k - 1)
        put("e", all_e and unsigned == 0)
        put("m", all_e and all_m and unsigned <= k)
        # timelocks: two arguments conflict only where both may be needed at once, that is when k > 1
        acc: frozenset = frozenset("k")
        for t in ts:
            ok = "k" in acc and "k" in t and (k <= 1 or not _mix(acc, t))
            acc = frozenset(((acc | t) & set("ghij")) | ({"k"} if ok else set()))
        put("k", "k" in acc)
        return frozenset(out)
    raise ValueError(name)


class Info:
    """Everything the model says about one (sub)expression.

    `toks` is complete for the root only: a parent takes its arguments' token lists over (so that a deep expression costs n log n and not
    n^2); `nops` and `size` are kept per node instead, and `analyse(info.e, ctx)` gives the tokens of any subexpression on demand.
    """

    __slots__ = ("e", "t", "toks", "nops", "size", "ops_dyn", "items", "wit", "exec", "sub")

    def __init__(self, e):
        self.e = e


def analyse(e, ctx: str) -> Info:
    """Bottom-up: type (None when ill-typed here or below), script tokens, bounds."""
    tap = ctx == TAPSCRIPT
    done: dict[int, Info] = {}
    order = []
    stack = [e]
    while stack:
        x = stack.pop()
        order.append(x)
        stack.extend(subs(x))
    if len({id(x) for x in order}) != len(order):
        return analyse(_fresh(e), ctx)  # a subexpression object placed twice: the token lists are handed over once each
    for x in reversed(order):
        info = Info(x)
        info.sub = [done[id(s)] for s in subs(x)]
        ts = [s.t for s in info.sub]
        if not info.sub:
            info.t = frozenset(_leaf_props(x, tap))
        elif any(t is None for t in ts):
            info.t = None
        else:
            info.t = _combine(x[0], x, ts, tap)
        _assemble(info, tap)
        _bounds(info, tap)
        done[id(x)] = info
    return done[id(e)]


# ----------------------------------------------------------------------------------------------- translation
OP = {
    "0": 0x00, "IF": 0x63, "NOTIF": 0x64, "ELSE": 0x67, "ENDIF": 0x68, "VERIFY": 0x69, "TOALTSTACK": 0x6B, "FROMALTSTACK": 0x6C,
    "IFDUP": 0x73, "DUP": 0x76, "SWAP": 0x7C, "SIZE": 0x82, "EQUAL": 0x87, "EQUALVERIFY": 0x88, "0NOTEQUAL": 0x92, "ADD": 0x93,
    "BOOLAND": 0x9A, "BOOLOR": 0x9B, "NUMEQUAL": 0x9C, "NUMEQUALVERIFY": 0x9D, "RIPEMD160": 0xA6, "SHA256": 0xA8, "HASH160": 0xA9,
    "HASH256": 0xAA, "CHECKSIG": 0xAC, "CHECKSIGVERIFY": 0xAD, "CHECKMULTISIG": 0xAE, "CHECKMULTISIGVERIFY": 0xAF,
    "CLTV": 0xB1, "CSV": 0xB2, "CHECKSIGADD": 0xBA,
}  # fmt: skip
VERIFY_FORM = {"EQUAL": "EQUALVERIFY", "NUMEQUAL": "NUMEQUALVERIFY", "CHECKSIG": "CHECKSIGVERIFY", "CHECKMULTISIG": "CHECKMULTISIGVERIFY"}
HASH_OP = {"sha256": "SHA256", "hash256": "HASH256", "ripemd160": "RIPEMD160", "hash160": "HASH160"}


class _Sub:
    """Where the script of subexpression i goes in a fragment's pattern."""

    __slots__ = ("i",)

    def __init__(self, i):
        self.i = i


_S0, _S1, _S2 = _Sub(0), _Sub(1), _Sub(2)


def _pattern(e, tap: bool) -> list:
    """BIP379's translation table. A token is an opcode name, bytes (a push), an int (a number to push) or a subexpression's place."""
    name = e[0]
    if name == "0":
        return [0]
    if name == "1":
        return [1]
    if name == "pk_k":
        return [key_bytes(e[1], tap)]
    if name == "pk_h":
        return ["DUP", "HASH160", hash_fn("hash160", key_bytes(e[1], tap)), "EQUALVERIFY"]
    if name == "older":
        return [e[1], "CSV"]
    if name == "after":
        return [e[1], "CLTV"]
    if name in HASHES:
        return ["SIZE", 32, "EQUALVERIFY", HASH_OP[name], digest_bytes(name, e[1]), "EQUAL"]
    if name == "multi":
        return [e[1], *(key_bytes(k, tap) for k in e[2]), len(e[2]), "CHECKMULTISIG"]
    if name == "multi_a":
        out: list = []
        for pos, k in enumerate(e[2]):
            out += [key_bytes(k, tap), "CHECKSIGADD" if pos else "CHECKSIG"]
        return [*out, e[1], "NUMEQUAL"]
    if name == "a":
        return ["TOALTSTACK", _S0, "FROMALTSTACK"]
    if name == "s":
        return ["SWAP", _S0]
    if name == "c":
        return [_S0, "CHECKSIG"]
    if name == "d":
        return ["DUP", "IF", _S0, "ENDIF"]
    if name == "v":
        return [_S0]  # and the VERIFY, see _assemble
    if name == "j":
        return ["SIZE", "0NOTEQUAL", "IF", _S0, "ENDIF"]
    if name == "n":
        return [_S0, "0NOTEQUAL"]
    if name == "and_v":
        return [_S0, _S1]
    if name == "and_b":
        return [_S0, _S1, "BOOLAND"]
    if name == "or_b":
        return [_S0, _S1, "BOOLOR"]
    if name == "or_c":
        return [_S0, "NOTIF", _S1, "ENDIF"]
    if name == "or_d":
        return [_S0, "IFDUP", "NOTIF", _S1, "ENDIF"]
    if name == "or_i":
        return ["IF", _S0, "ELSE", _S1, "ENDIF"]
    if name == "andor":
        return [_S0, "NOTIF", _S2, "ELSE", _S1, "ENDIF"]
    if name == "thresh":
        out = [_S0]
        for i in range(1, len(e[2])):
            out += [_Sub(i), "ADD"]
        return [*out, e[1], "EQUAL"]
    raise ValueError(name)


def _token_size(t) -> int:
    return 1 if isinstance(t, str) else len(push_number(t)) if isinstance(t, int) else len(push_data(t))


def _merge(pattern: list, parts: list):
    """The pattern with every place filled by its deque: the largest deque is kept and grown at both ends."""
    places = [k for k, t in enumerate(pattern) if isinstance(t, _Sub)]
    if not places:
        return deque(pattern)
    keep = max(places, key=lambda k: len(parts[pattern[k].i]))
    acc = parts[pattern[keep].i]
    for t in reversed(pattern[:keep]):
        if isinstance(t, _Sub):
            acc.extendleft(reversed(parts[t.i]))
        else:
            acc.appendleft(t)
    for t in pattern[keep + 1 :]:
        if isinstance(t, _Sub):
            acc.extend(parts[t.i])
        else:
            acc.append(t)
    return acc


def _assemble(info: Info, tap: bool) -> None:
    e = info.e
    pattern = _pattern(e, tap)
    own = [t for t in pattern if not isinstance(t, _Sub)]
    info.nops = sum(s.nops for s in info.sub) + sum(1 for t in own if isinstance(t, str))
    info.size = sum(s.size for s in info.sub) + sum(_token_size(t) for t in own)
    toks = _merge(pattern, [s.toks for s in info.sub])
    for s in info.sub:
        s.toks = None  # taken over
    if e[0] == "v":
        # "[X] VERIFY (or VERIFY version of last opcode in [X])"
        last = toks[-1] if toks else None
        if isinstance(last, str) and last in VERIFY_FORM:
            toks[-1] = VERIFY_FORM[last]
        else:
            toks.append("VERIFY")
            info.nops += 1
            info.size += 1
    info.toks = toks


def push_number(n: int) -> bytes:
    if n == 0:
        return b"\x00"
    if 1 <= n <= 16:
        return bytes([0x50 + n])
    neg, mag, out = n < 0, abs(n), bytearray()
    while mag:
        out.append(mag & 0xFF)
        mag >>= 8
    if out[-1] & 0x80:
        out.append(0x80 if neg else 0)
    elif neg:
        out[-1] |= 0x80
    return bytes([len(out)]) + bytes(out)


def push_data(data: bytes) -> bytes:
    n = len(data)
    if n < 0x4C:
        return bytes([n]) + data
    if n <= 0xFF:
        return b"\x4c" + bytes([n]) + data
    return b"\x4d" + n.to_bytes(2, "little") + data


def serialize(toks) -> bytes:
    out = bytearray()
    for t in toks:
        if isinstance(t, str):
            out.append(OP[t])
        elif isinstance(t, int):
            out += push_number(t)
        else:
            out += push_data(t)
    return bytes(out)


def script(e, ctx: str) -> bytes:
    return serialize(analyse(e, ctx).toks)


# ----------------------------------------------------------------------------------------------- bounds
def _add(a, b):
    return None if a is None or b is None else a + b


def _alt(a, b):
    if a is None:
        return b
    if b is None:
        return a
    return max(a, b)


def _additive(name: str, e, leaf, sel1: int, sel0: int, sub: list):
    """(sat, dsat) of one additive measure. `leaf` is the pair of a leaf, `sel1`/`sel0` what the `1`/empty selector of an IF costs."""
    if not sub:
        return leaf
    if name in ("a", "s", "c", "n"):
        return sub[0]
    if name == "d":
        return (_add(sel1, sub[0][0]), sel0)
    if name == "v":
        return (sub[0][0], None)
    if name == "j":
        return (sub[0][0], sel0)
    if name == "and_v":
        return (_add(sub[0][0], sub[1][0]), None)
    if name == "and_b":
        return (_add(sub[0][0], sub[1][0]), _add(sub[0][1], sub[1][1]))
    x, z = sub[0], sub[1] if len(sub) > 1 else None
    if name == "or_b":
        return (_alt(_add(x[0], z[1]), _add(x[1], z[0])), _add(x[1], z[1]))
    if name == "or_c":
        return (_alt(x[0], _add(x[1], z[0])), None)
    if name == "or_d":
        return (_alt(x[0], _add(x[1], z[0])), _add(x[1], z[1]))
    if name == "or_i":
        return (_alt(_add(x[0], sel1), _add(z[0], sel0)), _alt(_add(x[1], sel1), _add(z[1], sel0)))
    if name == "andor":
        y, w = sub[1], sub[2]
        return (_alt(_add(x[0], y[0]), _add(x[1], w[0])), _add(x[1], w[1]))
    if name == "thresh":
        reach = [0]  # reach[j]: the worst cost of satisfying exactly j of the arguments seen so far
        for s in sub:
            nxt = [_add(reach[0], s[1])]
            for j in range(1, len(reach)):
                nxt.append(_alt(_add(reach[j], s[1]), _add(reach[j - 1], s[0])))
            nxt.append(_add(reach[-1], s[0]))
            reach = nxt
        return (reach[e[1]] if 0 <= e[1] < len(reach) else None, reach[0])
    raise ValueError(name)


# Core's SatInfo: (netdiff, exec) = (elements before - elements after, peak above the final size); None = impossible
def _cat(a, b):
    if a is None or b is None:
        return None
    return (a[0] + b[0], max(b[1], b[0] + a[1]))


def _either(a, b):
    if a is None:
        return b
    if b is None:
        return a
    return (max(a[0], b[0]), max(a[1], b[1]))


def _seq(*parts):
    acc = (0, 0)
    for p in parts:
        acc = _cat(acc, p)
    return acc


_PUSH, _NOP, _IFOP, _BIN, _DUP, _SIZE, _EQV, _EQ, _CHK, _VER, _HASHOP = (-1, 0), (0, 0), (1, 1), (1, 1), (-1, 0), (-1, 0), (2, 2), (1, 1), (1, 1), (1, 1), (0, 0)


def _exec(name: str, e, sub: list):
    if name == "0":
        return (None, _PUSH)
    if name == "1":
        return (_PUSH, None)
    if name in ("older", "after"):
        return (_seq(_PUSH, _NOP), None)
    if name == "pk_k":
        return (_PUSH, _PUSH)
    if name == "pk_h":
        t = _seq(_DUP, _HASHOP, _PUSH, _EQV)
        return (t, t)
    if name in HASHES:
        return (_seq(_SIZE, _PUSH, _EQV, _HASHOP, _PUSH, _EQ), None)
    if name == "multi":
        k, n = e[1], len(e[2])
        return ((k, k + n + 2),) * 2
    if name == "multi_a":
        n = len(e[2])
        return ((n - 1, n),) * 2
    if name in ("a", "s", "n"):
        return sub[0]
    if name == "c":
        return (_cat(sub[0][0], _CHK), _cat(sub[0][1], _CHK))
    if name == "d":
        return (_seq(_DUP, _IFOP, sub[0][0]) if sub[0][0] is not None else None, _seq(_DUP, _IFOP))
    if name == "v":
        return (_cat(sub[0][0], _VER), None)
    if name == "j":
        pre = _seq(_SIZE, _NOP, _IFOP)
        return (_cat(pre, sub[0][0]), pre)
    x = sub[0]
    if name == "and_v":
        return (_cat(x[0], sub[1][0]), None)
    if name == "and_b":
        return (_cat(_cat(x[0], sub[1][0]), _BIN), _cat(_cat(x[1], sub[1][1]), _BIN))
    z = sub[1] if len(sub) > 1 else None
    if name == "or_b":
        return (_cat(_either(_cat(x[0], z[1]), _cat(x[1], z[0])), _BIN), _cat(_cat(x[1], z[1]), _BIN))
    if name == "or_c":
        return (_either(_cat(x[0], _IFOP), _cat(_cat(x[1], _IFOP), z[0])), None)
    if name == "or_d":
        dup_true, dup_false = (-1, 0), (0, 0)  # OP_IFDUP duplicates a true value only
        return (
            _either(_cat(_cat(x[0], dup_true), _IFOP), _cat(_cat(_cat(x[1], dup_false), _IFOP), z[0])),
            _cat(_cat(_cat(x[1], dup_false), _IFOP), z[1]),
        )
    if name == "or_i":
        return (_cat(_IFOP, _either(x[0], z[0])), _cat(_IFOP, _either(x[1], z[1])))
    if name == "andor":
        y, w = sub[1], sub[2]
        return (_either(_cat(_cat(x[0], _IFOP), y[0]), _cat(_cat(x[1], _IFOP), w[0])), _cat(_cat(x[1], _IFOP), w[1]))
    if name == "thresh":
        reach = [(0, 0)]
        for pos, s in enumerate(sub):
            tail = _BIN if pos else (0, 0)
            nxt = [_cat(_cat(reach[0], s[1]), tail)]
            for j in range(1, len(reach)):
                nxt.append(_cat(_either(_cat(reach[j], s[1]), _cat(reach[j - 1], s[0])), tail))
            nxt.append(_cat(_cat(reach[-1], s[0]), tail))
            reach = nxt
        end = _seq(_PUSH, _EQ)
        return (_cat(reach[e[1]], end) if 0 <= e[1] < len(reach) else None, _cat(reach[0], end))
    raise ValueError(name)


def _bounds(info: Info, tap: bool) -> None:
    e = info.e
    name = e[0]
    sig = 1 + (65 if tap else 72)
    pub = 1 + (32 if tap else 33)
    if name in ("multi", "multi_a"):
        k, n = e[1], len(e[2])
    leaf_ops = {"0": (None, 0), "1": (0, None), "older": (0, None), "after": (0, None), "pk_k": (0, 0), "pk_h": (0, 0)}
    leaf_items = {"0": (None, 0), "1": (0, None), "older": (0, None), "after": (0, None), "pk_k": (1, 1), "pk_h": (2, 2)}
    leaf_wit = {"0": (None, 0), "1": (0, None), "older": (0, None), "after": (0, None), "pk_k": (sig, 1), "pk_h": (sig + pub, 1 + pub)}
    if name in HASHES:
        lo, li, lw = (0, None), (1, None), (33, None)
    elif name == "multi":
        lo, li, lw = (n, n), (k + 1, k + 1), (k * sig + 1, k + 1)
    elif name == "multi_a":
        lo, li, lw = (0, 0), (n, n), (k * sig + n - k, n)
    else:
        lo, li, lw = leaf_ops.get(name), leaf_items.get(name), leaf_wit.get(name)
    info.ops_dyn = _additive(name, e, lo, 0, 0, [s.ops_dyn for s in info.sub])
    info.items = _additive(name, e, li, 1, 1, [s.items for s in info.sub])
    info.wit = _additive(name, e, lw, 2, 1, [s.wit for s in info.sub])
    info.exec = _exec(name, e, [s.exec for s in info.sub])


def max_ops(info: Info):
    """Every opcode above OP_16 of the script, executed or not (what the interpreter counts), plus the keys of the CHECKMULTISIGs that run."""
    return _add(info.nops, info.ops_dyn[0])


def max_stack_items(info: Info):
    return info.items[0]


def max_exec_stack_items(info: Info):
    leaves_value = 1 if info.t and (set("BKW") & info.t) else 0
    return None if info.exec[0] is None else info.exec[0][1] + leaves_value


def max_witness_size(info: Info):
    return info.wit[0]


# ----------------------------------------------------------------------------------------------- verdicts
def verdicts(e, ctx: str, info: Info | None = None) -> dict:
    """Core's IsValid / IsValidTopLevel / IsSane, component by component."""
    info = info or analyse(e, ctx)
    tap = ctx == TAPSCRIPT
    size = info.size
    typed = info.t is not None and shape_ok(e, ctx)
    valid = typed and size <= max_script_size(ctx)
    out = {"typed": typed, "valid": valid, "script_size": size}
    if not typed:
        return out
    t = info.t
    ks = keys_of(e)
    canon_keys = [key_bytes(k, tap) for k in ks]
    if tap:
        limits = valid and (max_exec_stack_items(info) is None or max_exec_stack_items(info) <= MAX_STACK_SIZE)
    else:
        ops, items = max_ops(info), max_stack_items(info)
        limits = valid and (ops is None or ops <= MAX_OPS_PER_SCRIPT) and (items is None or items <= MAX_STANDARD_P2WSH_STACK_ITEMS)
    out.update(
        top_level=valid and "B" in t,
        non_malleable="m" in t,
        needs_signature="s" in t,
        mixes_timelocks="k" not in t,
        duplicate_keys=len(set(canon_keys)) != len(canon_keys),
        within_limits=limits,
        satisfiable=info.items[0] is not None,
    )
    out["sane"] = bool(out["top_level"] and limits and "m" in t and "k" in t and not out["duplicate_keys"] and "s" in t)
    return out


# ----------------------------------------------------------------------------------------------- text
def text(e, ctx: str, sugar: int = -1, xonly: int = -1) -> str:
    """BIP379's text. Bit i of `sugar` says whether the i-th place where a sugared spelling exists uses it (-1: always, Core's ToString);
    bit (k mod 48) of `xonly` whether tapscript harness key k is written in 32 bytes (by key, so that a repeated key is the same text)."""
    tap = ctx == TAPSCRIPT
    counter = [0]

    def sweet() -> bool:
        i = counter[0]
        counter[0] += 1
        return sugar < 0 or bool((sugar >> (i % 48)) & 1)

    def ktxt(k) -> str:
        return key_text(k, tap, xonly < 0 or not isinstance(k, int) or bool((xonly >> (k % 48)) & 1))

    def call(name, kids):
        """name(kid,kid,...) as pieces; the largest kid's pieces are kept and grown"""
        pattern: list = [name + "("]
        for i, (w, _) in enumerate(kids):
            if i:
                pattern.append(",")
            if w:
                pattern.append(w + ":")
            pattern.append(_Sub(i))
        pattern.append(")")
        return _merge(pattern, [b for _, b in kids])

    def one(x, done):
        """(wrapper letters, pieces of the body) of a node whose subexpressions are written already"""
        name = x[0]
        kids = [done[id(k)] for k in subs(x)]
        if name in WRAPPERS:
            if name == "c" and x[1][0] in ("pk_k", "pk_h") and sweet():
                return "", deque([("pk(" if x[1][0] == "pk_k" else "pkh(") + ktxt(x[1][1]) + ")"])
            return name + kids[0][0], kids[0][1]
        if name == "and_v" and x[2] == ["1"] and sweet():
            return "t" + kids[0][0], kids[0][1]
        if name == "or_i" and x[1] == ["0"] and sweet():
            return "l" + kids[1][0], kids[1][1]
        if name == "or_i" and x[2] == ["0"] and sweet():
            return "u" + kids[0][0], kids[0][1]
        if name == "andor" and x[3] == ["0"] and sweet():
            return "", call("and_n", kids[:2])
        if name in ("0", "1"):
            return "", deque([name])
        if name in ("pk_k", "pk_h"):
            return "", deque([f"{name}({ktxt(x[1])})"])
        if name in ("older", "after"):
            return "", deque([f"{name}({x[1]})"])
        if name in HASHES:
            return "", deque([f"{name}({digest_bytes(name, x[1]).hex()})"])
        if name in ("multi", "multi_a"):
            return "", deque([f"{name}({x[1]},{','.join(ktxt(k) for k in x[2])})"])
        if name == "thresh":
            return "", _thresh_text(x[1], kids)
        return "", call(name, kids)

    def _thresh_text(k, kids):
        pieces = call("thresh", kids)
        pieces[0] = f"thresh({k},"
        return pieces

    order = list(walk(e))
    if len({id(x) for x in order}) != len(order):
        return text(_fresh(e), ctx, sugar, xonly)
    done: dict = {}
    for x in reversed(order):
        done[id(x)] = one(x, done)
    w, b = done[id(e)]
    return (w + ":" if w else "") + "".join(b)


class ParseError(Exception):
    pass


def parse(s: str, ctx: str):
    """Text -> expression (sugar removed); keys and digests stay hex. ParseError where the text is not BIP379's grammar."""
    pos = 0

    def fail(msg):
        raise ParseError(f"{msg} at {pos}: {s[pos:pos + 20]!r}")

    def expect(ch):
        nonlocal pos
        if s[pos : pos + 1] != ch:
            fail(f"expected {ch!r}")
        pos += 1

    def name_at():
        nonlocal pos
        start = pos
        while pos < len(s) and (s[pos].isalnum() or s[pos] == "_"):
            pos += 1
        return s[start:pos]

    def argument() -> str:
        nonlocal pos
        start = pos
        while pos < len(s) and s[pos] not in ",)":
            if s[pos] == "(":
                fail("nested bracket in a leaf argument")
            pos += 1
        return s[start:pos]

    def number(txt: str) -> int:
        if not txt.isdigit() or not txt.isascii() or (len(txt) > 1 and txt[0] == "0"):
            fail("not a number")
        return int(txt)

    def key(txt: str):
        if len(txt) not in (64, 66) or any(c not in "0123456789abcdefABCDEF" for c in txt):
            fail("not a key")
        if len(txt) == 64 and ctx != TAPSCRIPT:
            fail("x-only key outside tapscript")
        return txt.lower()

    def expr():
        nonlocal pos
        # wrappers: a run of letters closed by a colon
        j = pos
        while j < len(s) and s[j].isalpha():
            j += 1
        if j < len(s) and s[j] == ":" and j > pos:
            letters = s[pos:j]
            pos = j + 1
            inner = body()
            for c in reversed(letters):
                if c in WRAPPERS:
                    inner = [c, inner]
                elif c == "t":
                    inner = ["and_v", inner, ["1"]]
                elif c == "l":
                    inner = ["or_i", ["0"], inner]
                elif c == "u":
                    inner = ["or_i", inner, ["0"]]
                else:
                    fail(f"unknown wrapper {c}")
            return inner
        return body()

    def body():
        nonlocal pos
        name = name_at()
        if name in ("0", "1"):
            return [name]
        if name == "":
            fail("no fragment")
        expect("(")
        if name in ("pk", "pkh", "pk_k", "pk_h"):
            k = key(argument())
            expect(")")
            leaf = ["pk_h" if name in ("pkh", "pk_h") else "pk_k", k]
            return leaf if name.startswith("pk_") else ["c", leaf]
        if name in ("older", "after"):
            n = number(argument())
            expect(")")
            return [name, n]
        if name in HASHES:
            h = argument()
            if len(h) != 2 * HASHES[name] or any(c not in "0123456789abcdefABCDEF" for c in h):
                fail("not a digest")
            expect(")")
            return [name, h.lower()]
        if name in ("multi", "multi_a"):
            k = number(argument())
            keys = []
            while s[pos : pos + 1] == ",":
                pos += 1
                keys.append(key(argument()))
            expect(")")
            return [name, k, keys]
        if name == "thresh":
            k = number(argument())
            xs = []
            while s[pos : pos + 1] == ",":
                pos += 1
                xs.append(expr())
            expect(")")
            if not xs:
                fail("thresh without arguments")
            return ["thresh", k, xs]
        if name in BINARY or name in ("andor", "and_n"):
            want = 3 if name == "andor" else 2
            xs = [expr()]
            for _ in range(want - 1):
                expect(",")
                xs.append(expr())
            expect(")")
            if name == "and_n":
                return ["andor", xs[0], xs[1], ["0"]]
            return [name, *xs]
        fail(f"unknown fragment {name}")

    out = expr()
    if pos != len(s):
        fail("trailing characters")
    return out


def normal(e, ctx: str):
    """The expression with every key and digest argument as canonical hex (what two spellings of one expression share)."""
    tap = ctx == TAPSCRIPT
    done: dict[int, list] = {}
    for x in reversed(list(walk(e))):
        name = x[0]
        if name in ("pk_k", "pk_h"):
            r = [name, key_bytes(x[1], tap).hex()]
        elif name in HASHES:
            r = [name, digest_bytes(name, x[1]).hex()]
        elif name in ("multi", "multi_a"):
            r = [name, x[1], [key_bytes(k, tap).hex() for k in x[2]]]
        elif name == "thresh":
            r = [name, x[1], [done[id(k)] for k in x[2]]]
        elif name in ("older", "after"):
            r = [name, x[1]]
        else:
            r = [name, *(done[id(k)] for k in subs(x))]
        done[id(x)] = r
    return done[id(e)]


# ----------------------------------------------------------------------------------------------- semantics
def after_met(n: int, lock_time: int, sequence: int) -> bool:
    """BIP65: same kind on both sides of 500000000, reached, and the input not final."""
    if (n < LOCKTIME_THRESHOLD) != (lock_time < LOCKTIME_THRESHOLD):
        return False
    return n <= lock_time and sequence != SEQ_FINAL


def older_met(n: int, sequence: int, version: int) -> bool:
    """BIP68/BIP112 for a fragment value without the disable bit (1 <= n < 2**31)."""
    if (version & 0xFFFFFFFF) < 2 or sequence & SEQ_DISABLE:
        return False
    mask = SEQ_TYPE | SEQ_MASK
    a, b = sequence & mask, n & mask
    if (a < SEQ_TYPE) != (b < SEQ_TYPE):
        return False
    return b <= a


def holds(e, signing: set, known: set, lock_time: int, sequence: int, version: int, tap: bool) -> bool:
    """The spending condition: signing = canonical key bytes that sign, known = digests (bytes) whose preimage is at hand."""
    memo: dict[int, bool] = {}
    order = list(walk(e))
    for x in reversed(order):
        name = x[0]
        ss = [memo[id(s)] for s in subs(x)]
        if name == "0":
            v = False
        elif name == "1":
            v = True
        elif name in ("pk_k", "pk_h"):
            v = key_bytes(x[1], tap) in signing
        elif name == "older":
            v = older_met(x[1], sequence, version)
        elif name == "after":
            v = after_met(x[1], lock_time, sequence)
        elif name in HASHES:
            v = digest_bytes(name, x[1]) in known
        elif name in ("multi", "multi_a"):
            v = sum(1 for k in x[2] if key_bytes(k, tap) in signing) >= x[1]
        elif name in WRAPPERS:
            v = ss[0]
        elif name in ("and_v", "and_b"):
            v = ss[0] and ss[1]
        elif name in ("or_b", "or_c", "or_d", "or_i"):
            v = ss[0] or ss[1]
        elif name == "andor":
            v = (ss[0] and ss[1]) or ss[2]
        elif name == "thresh":
            v = sum(ss) >= x[1]
        else:
            raise ValueError(name)
        memo[id(x)] = v
    return memo[id(e)]
