"""Independent transaction wire model (stdlib only). A tx is a plain dict:

{"version": int, "lock_time": int,
 "vin": [{"txid": hex (internal byte order as btclib's OutPoint.tx_id... see note),
          "vout": int, "script_sig": hex, "sequence": int, "witness": [hex, ...]}],
 "vout": [{"value": int, "spk": hex}]}

Note: btclib's OutPoint.tx_id is the *display* (big-endian) id; on the wire it
is reversed. The model keeps the same convention: "txid" is display order.
"""

from __future__ import annotations

import hashlib
import struct


def sha256(b: bytes) -> bytes:
    return hashlib.sha256(b).digest()


def hash256(b: bytes) -> bytes:
    return sha256(sha256(b))


def compact_size(n: int) -> bytes:
    if n < 0xFD:
        return bytes([n])
    if n <= 0xFFFF:
        return b"\xfd" + struct.pack("<H", n)
    if n <= 0xFFFFFFFF:
        return b"\xfe" + struct.pack("<I", n)
    return b"\xff" + struct.pack("<Q", n)


def ser_string(b: bytes) -> bytes:
    return compact_size(len(b)) + b


def ser_outpoint(i: dict) -> bytes:
    return bytes.fromhex(i["txid"])[::-1] + struct.pack("<I", i["vout"])


def ser_txin(i: dict) -> bytes:
    return ser_outpoint(i) + ser_string(bytes.fromhex(i["script_sig"])) + struct.pack("<I", i["sequence"])


def ser_txout(o: dict) -> bytes:
    return struct.pack("<q", o["value"]) + ser_string(bytes.fromhex(o["spk"]))


def ser_witness(stack: list[str]) -> bytes:
    return compact_size(len(stack)) + b"".join(ser_string(bytes.fromhex(e)) for e in stack)


def has_witness(tx: dict) -> bool:
    return any(i.get("witness") for i in tx["vin"])


def serialize(tx: dict, include_witness: bool = True) -> bytes:
    r = struct.pack("<I", tx["version"])
    wit = include_witness and has_witness(tx)
    if wit:
        r += b"\x00\x01"
    r += compact_size(len(tx["vin"])) + b"".join(ser_txin(i) for i in tx["vin"])
    r += compact_size(len(tx["vout"])) + b"".join(ser_txout(o) for o in tx["vout"])
    if wit:
        r += b"".join(ser_witness(i.get("witness") or []) for i in tx["vin"])
    r += struct.pack("<I", tx["lock_time"])
    return r


def txid(tx: dict) -> bytes:
    return hash256(serialize(tx, False))[::-1]


def wtxid(tx: dict) -> bytes:
    return hash256(serialize(tx, True))[::-1]


def weight(tx: dict) -> int:
    return 3 * len(serialize(tx, False)) + len(serialize(tx, True))


class ParseError(Exception):
    pass


class _R:
    def __init__(self, b: bytes) -> None:
        self.b = b
        self.i = 0

    def take(self, n: int) -> bytes:
        if n < 0 or self.i + n > len(self.b):
            raise ParseError("short read")
        r = self.b[self.i : self.i + n]
        self.i += n
        return r

    def u(self, n: int) -> int:
        return int.from_bytes(self.take(n), "little")

    def cs(self) -> int:
        """CompactSize, canonical only (Core's ReadCompactSize)."""
        c = self.u(1)
        if c < 253:
            return c
        if c == 253:
            v = self.u(2)
            if v < 253:
                raise ParseError("non-canonical")
        elif c == 254:
            v = self.u(4)
            if v < 0x10000:
                raise ParseError("non-canonical")
        else:
            v = self.u(8)
            if v < 0x100000000:
                raise ParseError("non-canonical")
        return v


def parse(b: bytes, allow_witness: bool = True) -> dict:
    """Core's UnserializeTransaction; the whole of `b` must be consumed."""
    r = _R(b)
    tx, used = parse_prefix(r, allow_witness)
    if r.i != len(b):
        raise ParseError("trailing bytes")
    return tx


def parse_prefix(r: _R, allow_witness: bool = True):
    version = r.u(4)
    flags = 0
    nin = r.cs()
    vin = None
    if nin == 0 and allow_witness:
        flags = r.u(1)
        if flags != 0:
            nin = r.cs()
            vin = _read_vin(r, nin)
            nout = r.cs()
            vout = _read_vout(r, nout)
        else:
            vin, vout = [], []
    else:
        vin = _read_vin(r, nin)
        nout = r.cs()
        vout = _read_vout(r, nout)
    if (flags & 1) and allow_witness:
        flags ^= 1
        for i in vin:
            n = r.cs()
            i["witness"] = [r.take(r.cs()).hex() for _ in range(n)]
        if not any(i["witness"] for i in vin):
            raise ParseError("Superfluous witness record")
    if flags:
        raise ParseError("Unknown transaction optional data")
    lock_time = r.u(4)
    return {"version": version, "lock_time": lock_time, "vin": vin, "vout": vout}, r.i


def _read_vin(r: _R, n: int) -> list:
    out = []
    for _ in range(n):
        txid = r.take(32)[::-1].hex()
        vout = r.u(4)
        ss = r.take(r.cs()).hex()
        seq = r.u(4)
        out.append({"txid": txid, "vout": vout, "script_sig": ss, "sequence": seq, "witness": []})
    return out


def _read_vout(r: _R, n: int) -> list:
    out = []
    for _ in range(n):
        v = int.from_bytes(r.take(8), "little", signed=True)
        spk = r.take(r.cs()).hex()
        out.append({"value": v, "spk": spk})
    return out
