"""ANSI-X9.63-KDF (SEC 1 v2, 3.6.1) and HKDF (RFC 5869), transcribed from the two texts; and the BIE1 (Electrum ECIES)
envelope, transcribed from electrum/crypto.py ecies_encrypt_message / ecies_decrypt_message.  stdlib only; the AES-128-CBC
callables are the caller's (as in the scheme under test)."""

from __future__ import annotations

import base64
import hashlib
import hmac


def ansi_x9_63_kdf(z: bytes, size: int, hf, shared_info: bytes = b"") -> bytes:
    """SEC 1 3.6.1: K = Hash(Z || Counter || [SharedInfo]) for Counter = 1.. (4 bytes big endian), leftmost `size` bytes."""
    hlen = hf().digest_size
    if size >= hlen * (2**32 - 1):
        raise ValueError("invalid")
    out = b""
    counter = 1
    while len(out) < size:
        out += hf(z + counter.to_bytes(4, "big") + shared_info).digest()
        counter += 1
    return out[:size]


def hkdf_extract(salt: bytes, ikm: bytes, hf) -> bytes:
    """RFC 5869 2.2: PRK = HMAC-Hash(salt, IKM); an absent salt is HashLen zeros."""
    if not salt:
        salt = bytes(hf().digest_size)
    return hmac.new(salt, ikm, hf).digest()


def hkdf_expand(prk: bytes, info: bytes, length: int, hf) -> bytes:
    """RFC 5869 2.3: T(i) = HMAC-Hash(PRK, T(i-1) | info | i), OKM = first L octets of T(1) | T(2) | ..."""
    hlen = hf().digest_size
    if length > 255 * hlen:
        raise ValueError("invalid")
    t, okm, i = b"", b"", 1
    while len(okm) < length:
        t = hmac.new(prk, t + info + bytes([i]), hf).digest()
        okm += t
        i += 1
    return okm[:length]


def hkdf(ikm: bytes, length: int, hf, salt: bytes = b"", info: bytes = b"") -> bytes:
    return hkdf_expand(hkdf_extract(salt, ikm, hf), info, length, hf)


# RFC 5869 appendix A, test cases 1 and 3 (SHA-256) and 4 (SHA-1)
RFC5869 = [
    ("sha256", "0b" * 22, "000102030405060708090a0b0c", "f0f1f2f3f4f5f6f7f8f9", 42,
     "077709362c2e32df0ddc3f0dc47bba6390b6c73bb50f9c3122ec844ad7c2b3e5",
     "3cb25f25faacd57a90434f64d0362f2a2d2d0a90cf1a5a4c5db02d56ecc4c5bf34007208d5b887185865"),
    ("sha256", "0b" * 22, "", "", 42,
     "19ef24a32c717b167f33a91d6f648bdf96596776afdb6377ac434c1c293ccb04",
     "8da4e775a563c18f715f802a063c5a31b8a11f5c5ee1879ec3454e5f3c738d2d9d201395faa4b61a96c8"),
    ("sha1", "0b" * 11, "000102030405060708090a0b0c", "f0f1f2f3f4f5f6f7f8f9", 42,
     "9b6c18c432a7bf8f0e71c8eb88f4b30baa2ba243",
     "085a01ea1b10f36933068b56efa5ad81a4f14b822f5b091568a9cdd4f155fda2c22e422478d305f3f896"),
]


def validate_kdf() -> list[str]:
    bad = []
    for i, (h, ikm, salt, info, length, prk, okm) in enumerate(RFC5869):
        hf = getattr(hashlib, h)
        if hkdf_extract(bytes.fromhex(salt), bytes.fromhex(ikm), hf).hex() != prk:
            bad.append(f"rfc5869 prk {i}")
        if hkdf(bytes.fromhex(ikm), length, hf, bytes.fromhex(salt), bytes.fromhex(info)).hex() != okm:
            bad.append(f"rfc5869 okm {i}")
    return bad


# ------------------------------------------------------------------ BIE1
def bie1_keys(shared_point_compressed: bytes):
    """electrum: key = sha512(ecdh_key); iv, key_e, key_m = key[0:16], key[16:32], key[32:]"""
    key = hashlib.sha512(shared_point_compressed).digest()
    return key[0:16], key[16:32], key[32:]


def bie1_encrypt(msg: bytes, shared_point_compressed: bytes, eph_pub_compressed: bytes, aes_cbc_pkcs7_encrypt, magic: bytes = b"BIE1") -> str:
    iv, key_e, key_m = bie1_keys(shared_point_compressed)
    ciphertext = aes_cbc_pkcs7_encrypt(key_e, iv, msg)
    encrypted = magic + eph_pub_compressed + ciphertext
    mac = hmac.new(key_m, encrypted, hashlib.sha256).digest()
    return base64.b64encode(encrypted + mac).decode()


def bie1_split(armor: str, magic: bytes = b"BIE1"):
    """-> (eph_pub 33 bytes, ciphertext, mac) as electrum's ecies_decrypt_message slices them, or raises ValueError"""
    encrypted = base64.b64decode(armor, validate=True)
    if len(encrypted) < 85:
        raise ValueError("invalid ciphertext: length")
    if encrypted[:4] != magic:
        raise ValueError("invalid ciphertext: invalid magic bytes")
    return encrypted[4:37], encrypted[37:-32], encrypted[-32:]


def bie1_decrypt(armor: str, shared_point_compressed: bytes, aes_cbc_pkcs7_decrypt, magic: bytes = b"BIE1") -> bytes:
    encrypted = base64.b64decode(armor, validate=True)
    eph, ciphertext, mac = bie1_split(armor, magic)
    iv, key_e, key_m = bie1_keys(shared_point_compressed)
    if mac != hmac.new(key_m, encrypted[:-32], hashlib.sha256).digest():
        raise ValueError("invalid password")
    return aes_cbc_pkcs7_decrypt(key_e, iv, ciphertext)
