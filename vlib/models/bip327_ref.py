"""BIP327 (MuSig2) transcribed from the BIP's reference.py: KeySort, KeyAgg, ApplyTweak, NonceGen, NonceAgg,
GetSessionValues, Sign, DeterministicSign, PartialSigVerify, PartialSigAgg.  Point arithmetic is vlib.models.fastec
(validated against the affine models by C08).  stdlib only, no btclib.

Points are affine (x, y) tuples, None is infinity.  Errors: InvalidContribution(signer, contrib) and ValueError, as in the BIP.

An optional `adaptor` (33-byte point T) in the session context is the one addition: it is added to the first aggregate
nonce point before the nonce coefficient b is hashed (secp256k1-zkp musig_nonce_process); nothing else changes.
"""

from __future__ import annotations

import hashlib
from functools import lru_cache

from . import fastec as ec

N, P, G = ec.N, ec.P, ec.G


class InvalidContribution(Exception):
    def __init__(self, signer, contrib):
        super().__init__(f"{contrib} of signer {signer}")
        self.signer = signer
        self.contrib = contrib


def tagged_hash(tag: str, msg: bytes) -> bytes:
    t = hashlib.sha256(tag.encode()).digest()
    return hashlib.sha256(t + t + msg).digest()


def point_add(A, B):
    if A is None:
        return B
    if B is None:
        return A
    return ec.to_affine(ec.jadd((A[0], A[1], 1), (B[0], B[1], 1)))


def point_mul(Pt, k: int):
    if Pt is None or k % N == 0:
        return None
    return ec.mul(k % N, Pt)


def point_negate(Pt):
    return None if Pt is None else (Pt[0], P - Pt[1])


def has_even_y(Pt) -> bool:
    return Pt[1] % 2 == 0


def xbytes(Pt) -> bytes:
    return Pt[0].to_bytes(32, "big")


def cbytes(Pt) -> bytes:
    return (b"\x02" if has_even_y(Pt) else b"\x03") + xbytes(Pt)


def cbytes_ext(Pt) -> bytes:
    return bytes(33) if Pt is None else cbytes(Pt)


def cpoint(x: bytes):
    if len(x) != 33 or x[0] not in (2, 3):
        raise ValueError("x is not a valid compressed point.")
    Pt = ec.lift_x(int.from_bytes(x[1:], "big"), x[0] & 1)
    if Pt is None:
        raise ValueError("x is not a valid compressed point.")
    return Pt


def cpoint_ext(x: bytes):
    return None if x == bytes(33) else cpoint(x)


def individual_pk(sk: int) -> bytes:
    if not 1 <= sk <= N - 1:
        raise ValueError("The secret key must be an integer in the range 1..n-1.")
    return cbytes(point_mul(G, sk))


def key_sort(pubkeys):
    return sorted(pubkeys)


def hash_keys(pubkeys) -> bytes:
    return tagged_hash("KeyAgg list", b"".join(pubkeys))


def get_second_key(pubkeys) -> bytes:
    for j in range(1, len(pubkeys)):
        if pubkeys[j] != pubkeys[0]:
            return pubkeys[j]
    return bytes(33)


def key_agg_coeff_internal(pubkeys, pk_: bytes, pk2: bytes) -> int:
    L = hash_keys(pubkeys)
    if pk_ == pk2:
        return 1
    return int.from_bytes(tagged_hash("KeyAgg coefficient", L + pk_), "big") % N


def key_agg_coeff(pubkeys, pk_: bytes) -> int:
    return key_agg_coeff_internal(pubkeys, pk_, get_second_key(pubkeys))


def key_agg(pubkeys):
    """-> (Q, gacc, tacc)"""
    pk2 = get_second_key(pubkeys)
    Q = None
    for i, pk in enumerate(pubkeys):
        try:
            P_i = cpoint(pk)
        except ValueError:
            raise InvalidContribution(i, "pubkey")
        a_i = key_agg_coeff_internal(pubkeys, pk, pk2)
        Q = point_add(Q, point_mul(P_i, a_i))
    assert Q is not None  # negligible probability
    return (Q, 1, 0)


def apply_tweak(ctx, tweak: bytes, is_xonly: bool):
    if len(tweak) != 32:
        raise ValueError("The tweak must be a 32-byte array.")
    Q, gacc, tacc = ctx
    g = N - 1 if (is_xonly and not has_even_y(Q)) else 1
    t = int.from_bytes(tweak, "big")
    if t >= N:
        raise ValueError("The tweak must be less than n.")
    Q_ = point_add(point_mul(Q, g), point_mul(G, t))
    if Q_ is None:
        raise ValueError("The result of tweaking cannot be infinity.")
    return (Q_, g * gacc % N, (t + g * tacc) % N)


def key_agg_and_tweak(pubkeys, tweaks, is_xonly):
    if len(tweaks) != len(is_xonly):
        raise ValueError("The `tweaks` and `is_xonly` arrays must have the same length.")
    return _key_agg_and_tweak(tuple(pubkeys), tuple(tweaks), tuple(is_xonly))


@lru_cache(maxsize=64)  # a pure function of its arguments, asked for again by every step of a session
def _key_agg_and_tweak(pubkeys, tweaks, is_xonly):
    ctx = key_agg(pubkeys)
    for t, x in zip(tweaks, is_xonly):
        ctx = apply_tweak(ctx, t, x)
    return ctx


def bytes_xor(a: bytes, b: bytes) -> bytes:
    return bytes(x ^ y for x, y in zip(a, b))


def nonce_hash(rand, pk, aggpk, i, msg_prefixed, extra_in) -> int:
    buf = rand + len(pk).to_bytes(1, "big") + pk + len(aggpk).to_bytes(1, "big") + aggpk + msg_prefixed
    buf += len(extra_in).to_bytes(4, "big") + extra_in + i.to_bytes(1, "big")
    return int.from_bytes(tagged_hash("MuSig/nonce", buf), "big")


def nonce_gen_internal(rand_: bytes, sk, pk: bytes, aggpk, msg, extra_in):
    """sk: 32 bytes or None; aggpk: 32 bytes or None; msg, extra_in: bytes or None -> (secnonce 97 bytes, pubnonce 66 bytes)"""
    rand = bytes_xor(sk, tagged_hash("MuSig/aux", rand_)) if sk is not None else rand_
    if aggpk is None:
        aggpk = b""
    msg_prefixed = b"\x00" if msg is None else b"\x01" + len(msg).to_bytes(8, "big") + msg
    if extra_in is None:
        extra_in = b""
    k_1 = nonce_hash(rand, pk, aggpk, 0, msg_prefixed, extra_in) % N
    k_2 = nonce_hash(rand, pk, aggpk, 1, msg_prefixed, extra_in) % N
    assert k_1 != 0 and k_2 != 0
    pubnonce = cbytes(point_mul(G, k_1)) + cbytes(point_mul(G, k_2))
    secnonce = k_1.to_bytes(32, "big") + k_2.to_bytes(32, "big") + pk
    return secnonce, pubnonce


def nonce_agg(pubnonces) -> bytes:
    aggnonce = b""
    for j in (1, 2):
        R_j = None
        for i, pn in enumerate(pubnonces):
            try:
                R_ij = cpoint(pn[(j - 1) * 33 : j * 33])
            except ValueError:
                raise InvalidContribution(i, "pubnonce")
            R_j = point_add(R_j, R_ij)
        aggnonce += cbytes_ext(R_j)
    return aggnonce


def get_session_values(session_ctx):
    """session_ctx = (aggnonce, pubkeys, tweaks, is_xonly, msg[, adaptor]) -> (Q, gacc, tacc, b, R, e)"""
    return _get_session_values(tuple(tuple(x) if isinstance(x, list) else x for x in session_ctx))


@lru_cache(maxsize=64)
def _get_session_values(session_ctx):
    aggnonce, pubkeys, tweaks, is_xonly, msg = session_ctx[:5]
    adaptor = session_ctx[5] if len(session_ctx) > 5 else None
    Q, gacc, tacc = key_agg_and_tweak(pubkeys, tweaks, is_xonly)
    try:
        R_1 = cpoint_ext(aggnonce[0:33])
        R_2 = cpoint_ext(aggnonce[33:66])
    except ValueError:
        raise InvalidContribution(None, "aggnonce")
    if adaptor is not None:
        R_1 = point_add(R_1, cpoint(adaptor))
        b = int.from_bytes(tagged_hash("MuSig/noncecoef", cbytes_ext(R_1) + cbytes_ext(R_2) + xbytes(Q) + msg), "big") % N
    else:
        b = int.from_bytes(tagged_hash("MuSig/noncecoef", aggnonce + xbytes(Q) + msg), "big") % N
    R_ = point_add(R_1, point_mul(R_2, b))
    R = R_ if R_ is not None else G
    e = int.from_bytes(tagged_hash("BIP0340/challenge", xbytes(R) + xbytes(Q) + msg), "big") % N
    return (Q, gacc, tacc, b, R, e)


def get_session_key_agg_coeff(session_ctx, Pt) -> int:
    pubkeys = session_ctx[1]
    pk = cbytes(Pt)
    if pk not in pubkeys:
        raise ValueError("The signer's pubkey must be included in the list of pubkeys.")
    return key_agg_coeff(pubkeys, pk)


def sign(secnonce: bytes, sk: int, session_ctx, self_check: bool = True) -> bytes:
    Q, gacc, _, b, R, e = get_session_values(session_ctx)
    k_1_ = int.from_bytes(secnonce[0:32], "big")
    k_2_ = int.from_bytes(secnonce[32:64], "big")
    if not 0 < k_1_ < N:
        raise ValueError("first secnonce value is out of range.")
    if not 0 < k_2_ < N:
        raise ValueError("second secnonce value is out of range.")
    k_1 = k_1_ if has_even_y(R) else N - k_1_
    k_2 = k_2_ if has_even_y(R) else N - k_2_
    d_ = sk
    if not 0 < d_ < N:
        raise ValueError("secret key value is out of range.")
    Pt = point_mul(G, d_)
    pk = cbytes(Pt)
    if pk != secnonce[64:97]:
        raise ValueError("Public key does not match nonce_gen argument")
    a = get_session_key_agg_coeff(session_ctx, Pt)
    g = 1 if has_even_y(Q) else N - 1
    d = g * gacc * d_ % N
    s = (k_1 + b * k_2 + e * a * d) % N
    psig = s.to_bytes(32, "big")
    R_s1 = point_mul(G, k_1_)
    R_s2 = point_mul(G, k_2_)
    pubnonce = cbytes(R_s1) + cbytes(R_s2)
    assert not self_check or partial_sig_verify_internal(psig, pubnonce, pk, session_ctx)
    return psig


def det_nonce_hash(sk_: bytes, aggothernonce: bytes, aggpk: bytes, msg: bytes, i: int) -> int:
    buf = sk_ + aggothernonce + aggpk + len(msg).to_bytes(8, "big") + msg + i.to_bytes(1, "big")
    return int.from_bytes(tagged_hash("MuSig/deterministic/nonce", buf), "big")


def deterministic_sign(sk: int, aggothernonce: bytes, pubkeys, tweaks, is_xonly, msg: bytes, rand):
    skb = sk.to_bytes(32, "big")
    sk_ = bytes_xor(skb, tagged_hash("MuSig/aux", rand)) if rand is not None else skb
    Q = key_agg_and_tweak(pubkeys, tweaks, is_xonly)[0]
    aggpk = xbytes(Q)
    k_1 = det_nonce_hash(sk_, aggothernonce, aggpk, msg, 0) % N
    k_2 = det_nonce_hash(sk_, aggothernonce, aggpk, msg, 1) % N
    assert k_1 != 0 and k_2 != 0
    pubnonce = cbytes(point_mul(G, k_1)) + cbytes(point_mul(G, k_2))
    secnonce = k_1.to_bytes(32, "big") + k_2.to_bytes(32, "big") + individual_pk(sk)
    try:
        aggnonce = nonce_agg([pubnonce, aggothernonce])
    except Exception:
        raise InvalidContribution(None, "aggothernonce")
    psig = sign(secnonce, sk, (aggnonce, pubkeys, tweaks, is_xonly, msg))
    return pubnonce, psig


def partial_sig_verify_internal(psig: bytes, pubnonce: bytes, pk: bytes, session_ctx) -> bool:
    Q, gacc, _, b, R, e = get_session_values(session_ctx)
    s = int.from_bytes(psig, "big")
    if s >= N:
        return False
    R_s1 = cpoint(pubnonce[0:33])
    R_s2 = cpoint(pubnonce[33:66])
    Re_s_ = point_add(R_s1, point_mul(R_s2, b))
    Re_s = Re_s_ if has_even_y(R) else point_negate(Re_s_)
    Pt = cpoint(pk)
    a = get_session_key_agg_coeff(session_ctx, Pt)
    g = 1 if has_even_y(Q) else N - 1
    g_ = g * gacc % N
    return point_mul(G, s) == point_add(Re_s, point_mul(Pt, e * a * g_ % N))


def partial_sig_verify(psig, pubnonces, pubkeys, tweaks, is_xonly, msg, i) -> bool:
    if len(pubnonces) != len(pubkeys):
        raise ValueError("The `pubnonces` and `pubkeys` arrays must have the same length.")
    aggnonce = nonce_agg(pubnonces)
    return partial_sig_verify_internal(psig, pubnonces[i], pubkeys[i], (aggnonce, pubkeys, tweaks, is_xonly, msg))


def partial_sig_agg(psigs, session_ctx) -> bytes:
    """-> 64-byte signature (for a session with an adaptor: the pre-signature x(R) || s)"""
    Q, _, tacc, _, R, e = get_session_values(session_ctx)
    s = 0
    for i, psig in enumerate(psigs):
        s_i = int.from_bytes(psig, "big")
        if s_i >= N:
            raise InvalidContribution(i, "psig")
        s = (s + s_i) % N
    g = 1 if has_even_y(Q) else N - 1
    s = (s + e * g * tacc) % N
    return xbytes(R) + s.to_bytes(32, "big")


# --------------------------------------------------------------------------- validation on the BIP's vector files
def validate(load) -> list[str]:
    """load(name) -> parsed JSON of the BIP327 vector file `name`. Returns the list of failures (empty = ok)."""
    bad: list[str] = []
    H = bytes.fromhex

    def expect_error(fn, err, where):
        try:
            fn()
        except InvalidContribution as e:
            if err["type"] != "invalid_contribution" or e.signer != err.get("signer") or e.contrib != err["contrib"]:
                bad.append(f"{where}: wrong contribution error {e.signer},{e.contrib}")
        except ValueError as e:
            if err["type"] != "value" or str(e) != err["message"]:
                bad.append(f"{where}: wrong value error {e}")
        else:
            bad.append(f"{where}: no error")

    v = load("key_sort_vectors.json")
    if key_sort([H(x) for x in v["pubkeys"]]) != [H(x) for x in v["sorted_pubkeys"]]:
        bad.append("key_sort")

    v = load("key_agg_vectors.json")
    pks, tw = [H(x) for x in v["pubkeys"]], [H(x) for x in v["tweaks"]]
    for i, c in enumerate(v["valid_test_cases"]):
        if xbytes(key_agg([pks[j] for j in c["key_indices"]])[0]) != H(c["expected"]):
            bad.append(f"key_agg valid {i}")
    for i, c in enumerate(v["error_test_cases"]):
        expect_error(lambda: key_agg_and_tweak([pks[j] for j in c["key_indices"]], [tw[j] for j in c["tweak_indices"]], c["is_xonly"]), c["error"], f"key_agg error {i}")

    v = load("nonce_gen_vectors.json")
    for i, c in enumerate(v["test_cases"]):
        def opt(k):
            return None if c[k] is None else H(c[k])
        sn, pn = nonce_gen_internal(H(c["rand_"]), opt("sk"), H(c["pk"]), opt("aggpk"), opt("msg"), opt("extra_in"))
        if sn != H(c["expected_secnonce"]) or pn != H(c["expected_pubnonce"]):
            bad.append(f"nonce_gen {i}")

    v = load("nonce_agg_vectors.json")
    pn = [H(x) for x in v["pnonces"]]
    for i, c in enumerate(v["valid_test_cases"]):
        if nonce_agg([pn[j] for j in c["pnonce_indices"]]) != H(c["expected"]):
            bad.append(f"nonce_agg valid {i}")
    for i, c in enumerate(v["error_test_cases"]):
        expect_error(lambda: nonce_agg([pn[j] for j in c["pnonce_indices"]]), c["error"], f"nonce_agg error {i}")

    v = load("sign_verify_vectors.json")
    sk = int(v["sk"], 16)
    pks, sns, pns = [H(x) for x in v["pubkeys"]], [H(x) for x in v["secnonces"]], [H(x) for x in v["pnonces"]]
    ans, msgs = [H(x) for x in v["aggnonces"]], [H(x) for x in v["msgs"]]
    for i, c in enumerate(v["valid_test_cases"]):
        keys = [pks[j] for j in c["key_indices"]]
        nonces = [pns[j] for j in c["nonce_indices"]]
        an = ans[c["aggnonce_index"]]
        if nonce_agg(nonces) != an:
            bad.append(f"sign_verify valid {i}: aggnonce")
        ctx = (an, keys, [], [], msgs[c["msg_index"]])
        if sign(sns[0], sk, ctx) != H(c["expected"]):
            bad.append(f"sign_verify valid {i}: sign")
        if not partial_sig_verify(H(c["expected"]), nonces, keys, [], [], msgs[c["msg_index"]], c["signer_index"]):
            bad.append(f"sign_verify valid {i}: verify")
    for i, c in enumerate(v["sign_error_test_cases"]):
        keys = [pks[j] for j in c["key_indices"]]
        expect_error(lambda: sign(sns[c["secnonce_index"]], sk, (ans[c["aggnonce_index"]], keys, [], [], msgs[c["msg_index"]])), c["error"], f"sign error {i}")
    for i, c in enumerate(v["verify_fail_test_cases"]):
        if partial_sig_verify(H(c["sig"]), [pns[j] for j in c["nonce_indices"]], [pks[j] for j in c["key_indices"]], [], [], msgs[c["msg_index"]], c["signer_index"]):
            bad.append(f"verify_fail {i}")
    for i, c in enumerate(v["verify_error_test_cases"]):
        expect_error(lambda: partial_sig_verify(H(c["sig"]), [pns[j] for j in c["nonce_indices"]], [pks[j] for j in c["key_indices"]], [], [], msgs[c["msg_index"]], c["signer_index"]), c["error"], f"verify error {i}")

    v = load("tweak_vectors.json")
    sk = int(v["sk"], 16)
    pks, pns, tw = [H(x) for x in v["pubkeys"]], [H(x) for x in v["pnonces"]], [H(x) for x in v["tweaks"]]
    sn, an, msg = H(v["secnonce"]), H(v["aggnonce"]), H(v["msg"])
    for i, c in enumerate(v["valid_test_cases"]):
        keys, nonces = [pks[j] for j in c["key_indices"]], [pns[j] for j in c["nonce_indices"]]
        tws = [tw[j] for j in c["tweak_indices"]]
        if nonce_agg(nonces) != an:
            bad.append(f"tweak valid {i}: aggnonce")
        if sign(sn, sk, (an, keys, tws, c["is_xonly"], msg)) != H(c["expected"]):
            bad.append(f"tweak valid {i}: sign")
        if not partial_sig_verify(H(c["expected"]), nonces, keys, tws, c["is_xonly"], msg, c["signer_index"]):
            bad.append(f"tweak valid {i}: verify")
    for i, c in enumerate(v["error_test_cases"]):
        keys = [pks[j] for j in c["key_indices"]]
        expect_error(lambda: sign(sn, sk, (an, keys, [tw[j] for j in c["tweak_indices"]], c["is_xonly"], msg)), c["error"], f"tweak error {i}")

    v = load("det_sign_vectors.json")
    sk = int(v["sk"], 16)
    pks, msgs = [H(x) for x in v["pubkeys"]], [H(x) for x in v["msgs"]]
    for i, c in enumerate(v["valid_test_cases"]):
        keys = [pks[j] for j in c["key_indices"]]
        rand = H(c["rand"]) if c["rand"] is not None else None
        tws = [H(x) for x in c["tweaks"]]
        pn, ps = deterministic_sign(sk, H(c["aggothernonce"]), keys, tws, c["is_xonly"], msgs[c["msg_index"]], rand)
        if [pn, ps] != [H(x) for x in c["expected"]]:
            bad.append(f"det_sign valid {i}")
    for i, c in enumerate(v["error_test_cases"]):
        keys = [pks[j] for j in c["key_indices"]]
        rand = H(c["rand"]) if c["rand"] is not None else None
        expect_error(lambda: deterministic_sign(sk, H(c["aggothernonce"]), keys, [H(x) for x in c["tweaks"]], c["is_xonly"], msgs[c["msg_index"]], rand), c["error"], f"det_sign error {i}")

    v = load("sig_agg_vectors.json")
    pks, pns, tw, ps, msg = [H(x) for x in v["pubkeys"]], [H(x) for x in v["pnonces"]], [H(x) for x in v["tweaks"]], [H(x) for x in v["psigs"]], H(v["msg"])
    for i, c in enumerate(v["valid_test_cases"]):
        keys, nonces = [pks[j] for j in c["key_indices"]], [pns[j] for j in c["nonce_indices"]]
        tws = [tw[j] for j in c["tweak_indices"]]
        an = H(c["aggnonce"])
        if nonce_agg(nonces) != an:
            bad.append(f"sig_agg valid {i}: aggnonce")
        sig = partial_sig_agg([ps[j] for j in c["psig_indices"]], (an, keys, tws, c["is_xonly"], msg))
        Q = key_agg_and_tweak(keys, tws, c["is_xonly"])[0]
        if sig != H(c["expected"]) or not ec.schnorr_verify(msg, xbytes(Q), sig):
            bad.append(f"sig_agg valid {i}")
    for i, c in enumerate(v["error_test_cases"]):
        keys = [pks[j] for j in c["key_indices"]]
        expect_error(lambda: partial_sig_agg([ps[j] for j in c["psig_indices"]], (H(c["aggnonce"]), keys, [tw[j] for j in c["tweak_indices"]], c["is_xonly"], msg)), c["error"], f"sig_agg error {i}")
    return bad
