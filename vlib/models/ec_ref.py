"""Textbook affine short-Weierstrass group law (SEC 1 2.2.1). None = infinity.
stdlib only; deliberately naive (double-and-add, pow(x,-1,p))."""

from __future__ import annotations

from functools import lru_cache
from math import isqrt


def is_prime(n: int) -> bool:
    """Deterministic: trial division for small n, Miller-Rabin with fixed bases (exact < 3.3e24) + extra bases above."""
    if n < 2:
        return False
    small = (2, 3, 5, 7, 11, 13, 17, 19, 23, 29, 31, 37)
    for q in small:
        if n % q == 0:
            return n == q
    d, s = n - 1, 0
    while d % 2 == 0:
        d //= 2
        s += 1
    for a in small + (41, 43, 47, 53, 59, 61, 67, 71):
        if a % n == 0:  # n is that base itself (41..71): a witness must be a unit modulo n
            continue
        x = pow(a, d, n)
        if x in (1, n - 1):
            continue
        for _ in range(s - 1):
            x = x * x % n
            if x == n - 1:
                break
        else:
            return False
    return True


def on_curve(P, p, a, b) -> bool:
    if P is None:
        return True
    x, y = P
    return 0 <= x < p and 0 <= y < p and (y * y - (x * x * x + a * x + b)) % p == 0


def add(P, Q, p, a):
    if P is None:
        return Q
    if Q is None:
        return P
    if P[0] == Q[0]:
        if (P[1] + Q[1]) % p == 0:
            return None
        lam = (3 * P[0] * P[0] + a) * pow(2 * P[1], -1, p) % p
    else:
        lam = (Q[1] - P[1]) * pow(Q[0] - P[0], -1, p) % p
    x = (lam * lam - P[0] - Q[0]) % p
    return x, (lam * (P[0] - x) - P[1]) % p


def neg(P, p):
    return None if P is None else (P[0], (-P[1]) % p)


def mult(m: int, P, p, a, n=None):
    """m*P by double-and-add; m reduced mod n when the order n is given; negative m allowed."""
    if n is not None:
        m %= n
    if m < 0:
        return mult(-m, neg(P, p), p, a)
    R = None
    A = P
    while m:
        if m & 1:
            R = add(R, A, p, a)
        A = add(A, A, p, a)
        m >>= 1
    return R


def points(p, a, b):
    """All affine points by brute force (small p only)."""
    sq = {}
    for y in range(p):
        sq.setdefault(y * y % p, []).append(y)
    out = []
    for x in range(p):
        for y in sq.get((x * x * x + a * x + b) % p, ()):
            out.append((x, y))
    return out


def order(P, p, a) -> int:
    k, R = 1, P
    while R is not None:
        R = add(R, P, p, a)
        k += 1
    return k


def sec1_accepts(p, a, b, G, n, h, N, weakness_check=False) -> bool:
    """Would a SEC 1 style validation accept (p,a,b,G,n,h)? N = true group order (brute force).
    Mirrors the documented rules: p odd prime, 0<=a,b<p, non-zero discriminant, G affine on curve,
    n odd prime with n*G = O, Hasse when h<2, h = floor((sqrt(p)+1)^2 / n) computed as
    (p+1+isqrt(4p))//n, n != p, and embedding degree >= 100 when asked."""
    if not (is_prime(p) and p % 2 == 1):
        return False
    if not (0 <= a < p and 0 <= b < p) or (4 * a**3 + 27 * b * b) % p == 0:
        return False
    if G is None or G[1] == 0 or not on_curve(G, p, a, b):
        return False
    if not (is_prime(n) and n % 2 == 1):
        return False
    delta = isqrt(4 * p)
    if h < 2 and not p + 1 - delta <= n <= p + 1 + delta:
        return False
    if mult(n, G, p, a) is not None:
        return False
    if h != (p + 1 + delta) // n:
        return False
    if n == p:
        return False
    if weakness_check and any(pow(p, i, n) == 1 for i in range(1, 100)):
        return False
    return True


@lru_cache(maxsize=None)
def toy_curves(max_p: int):
    """Every (p,a,b,G,n,h,N) with p<=max_p prime, one generator per prime-order (n>2) subgroup order."""
    out = []
    for p in [q for q in range(3, max_p + 1) if is_prime(q)]:
        for a in range(p):
            for b in range(p):
                if (4 * a**3 + 27 * b * b) % p == 0:
                    continue
                pts = points(p, a, b)
                N = len(pts) + 1
                seen = set()
                for G in pts:
                    n = order(G, p, a)
                    if n in seen or n <= 2 or not is_prime(n):
                        continue
                    seen.add(n)
                    out.append((p, a, b, G, n, N // n, N))
    return out
