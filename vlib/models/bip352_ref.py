"""BIP352 (silent payments) transcribed from the BIP's reference.py: address codec, labels, public key extraction from
inputs, input hash, the sender's create_outputs and the receiver's scanning.  Arithmetic is vlib.models.fastec, bech32m's
polymod is vlib.models.segwit_addr_ref's (the address is longer than BIP173's 90 characters, so the codec is spelled here).
stdlib only, no btclib.  Points are affine tuples, None = infinity."""

from __future__ import annotations

import hashlib

from . import fastec as ec
from .segwit_addr_ref import BECH32M_CONST, CHARSET, bech32_hrp_expand, bech32_polymod, convertbits

N, P, G = ec.N, ec.P, ec.G
K_MAX = 2323
NUMS_H = bytes.fromhex("50929b74c1a04954b78b4b6035e97a5e078a5a0f28ec96d547bfee9ace803ac0")


def tagged_hash(tag: str, msg: bytes) -> bytes:
    t = hashlib.sha256(tag.encode()).digest()
    return hashlib.sha256(t + t + msg).digest()


def hash160(b: bytes) -> bytes:
    return hashlib.new("ripemd160", hashlib.sha256(b).digest()).digest()


def mul(k: int, Pt):
    if Pt is None or k % N == 0:
        return None
    return ec.mul(k % N, Pt)


def add(A, B):
    if A is None:
        return B
    if B is None:
        return A
    return ec.to_affine(ec.jadd((A[0], A[1], 1), (B[0], B[1], 1)))


def neg(A):
    return None if A is None else (A[0], P - A[1])


def cbytes(Pt) -> bytes:
    return bytes([2 + (Pt[1] & 1)]) + Pt[0].to_bytes(32, "big")


def xonly(Pt) -> bytes:
    return Pt[0].to_bytes(32, "big")


def cpoint(b: bytes):
    """compressed 33-byte key -> point, None when invalid or not compressed"""
    if len(b) != 33 or b[0] not in (2, 3):
        return None
    return ec.lift_x(int.from_bytes(b[1:], "big"), b[0] & 1)


def lift_x(b: bytes):
    if len(b) != 32:
        return None
    return ec.lift_x(int.from_bytes(b, "big"), 0)


# ------------------------------------------------------------------ address
def encode_address(B_scan, B_m, hrp: str = "sp", version: int = 0) -> str:
    data = [version] + convertbits(cbytes(B_scan) + cbytes(B_m), 8, 5)
    polymod = bech32_polymod(bech32_hrp_expand(hrp) + data + [0] * 6) ^ BECH32M_CONST
    chk = [(polymod >> 5 * (5 - i)) & 31 for i in range(6)]
    return hrp + "1" + "".join(CHARSET[d] for d in data + chk)


def decode_address(addr: str):
    """-> (hrp, version, B_scan, B_m) or raises ValueError; bech32m without BIP173's 90 character limit (BIP352: up to 1023)."""
    if addr.lower() != addr and addr.upper() != addr:
        raise ValueError("mixed case")
    addr = addr.lower()
    pos = addr.rfind("1")
    if pos < 1 or pos + 7 > len(addr) or len(addr) > 1023:
        raise ValueError("bad separator / length")
    hrp, rest = addr[:pos], addr[pos + 1 :]
    if any(c not in CHARSET for c in rest):
        raise ValueError("bad character")
    data = [CHARSET.find(c) for c in rest]
    if bech32_polymod(bech32_hrp_expand(hrp) + data) != BECH32M_CONST:
        raise ValueError("bad checksum")
    data = data[:-6]
    version = data[0]
    payload = convertbits(data[1:], 5, 8, False)
    if payload is None or version == 31 or (version == 0 and len(payload) != 66) or len(payload) < 66:
        raise ValueError("bad payload")
    payload = bytes(payload)
    B_scan, B_m = cpoint(payload[:33]), cpoint(payload[33:66])
    if B_scan is None or B_m is None:
        raise ValueError("bad key")
    return hrp, version, B_scan, B_m


def generate_label(b_scan: int, m: int) -> int:
    return int.from_bytes(tagged_hash("BIP0352/Label", b_scan.to_bytes(32, "big") + m.to_bytes(4, "big")), "big")


def labeled_spend_key(b_scan: int, B_spend, m: int):
    return add(B_spend, mul(generate_label(b_scan, m), G))


# ------------------------------------------------------------------ inputs
def is_p2tr(spk: bytes) -> bool:
    return len(spk) == 34 and spk[0] == 0x51 and spk[1] == 0x20


def is_p2wpkh(spk: bytes) -> bool:
    return len(spk) == 22 and spk[0] == 0x00 and spk[1] == 0x14


def is_p2sh(spk: bytes) -> bool:
    return len(spk) == 23 and spk[0] == 0xA9 and spk[1] == 0x14 and spk[-1] == 0x87


def is_p2pkh(spk: bytes) -> bool:
    return len(spk) == 25 and spk[0] == 0x76 and spk[1] == 0xA9 and spk[2] == 0x14 and spk[-2] == 0x88 and spk[-1] == 0xAC


def get_pubkey_from_input(spk: bytes, script_sig: bytes, witness_stack: list):
    """-> point or None (input not eligible)"""
    stack = list(witness_stack)
    if is_p2pkh(spk):
        spk_hash = spk[3:23]
        for i in range(len(script_sig), 0, -1):
            if i - 33 >= 0:
                pk = script_sig[i - 33 : i]
                if hash160(pk) == spk_hash:
                    Pt = cpoint(pk)
                    if Pt is not None:
                        return Pt
    if is_p2sh(spk):
        redeem = script_sig[1:]
        if is_p2wpkh(redeem) and stack:
            return cpoint(stack[-1])
    if is_p2wpkh(spk) and stack:
        return cpoint(stack[-1])
    if is_p2tr(spk):
        if len(stack) >= 1:
            if len(stack) > 1 and stack[-1][:1] == b"\x50":
                stack.pop()
            if len(stack) > 1:
                if stack[-1][1:33] == NUMS_H:
                    return None
            return lift_x(spk[2:])
    return None


def outpoint_bytes(txid_hex: str, vout: int) -> bytes:
    return bytes.fromhex(txid_hex)[::-1] + vout.to_bytes(4, "little")


def get_input_hash(outpoints: list, A_sum) -> int:
    """outpoints: serialized 36-byte outpoints"""
    return int.from_bytes(tagged_hash("BIP0352/Inputs", min(outpoints) + cbytes(A_sum)), "big")


def output_tweak(secret, k: int) -> int:
    return int.from_bytes(tagged_hash("BIP0352/SharedSecret", cbytes(secret) + k.to_bytes(4, "big")), "big")


# ------------------------------------------------------------------ sender
def create_outputs(input_priv_keys, outpoints, recipients):
    """input_priv_keys: [(int, is_taproot)]; outpoints: serialized; recipients: [(B_scan, B_m)] in the sender's order.
    -> None when the keys sum to zero, else a list aligned with `recipients`: the x-only output key of each, where the k of a
    recipient is its position within its scan-key group (the order the BIP's reference iterates a group in)."""
    a_sum = 0
    for key, is_taproot in input_priv_keys:
        if is_taproot and mul(key, G)[1] % 2 != 0:
            key = N - key
        a_sum = (a_sum + key) % N
    if a_sum == 0:
        return None
    input_hash = get_input_hash(outpoints, mul(a_sum, G))
    groups: dict = {}
    for i, (B_scan, B_m) in enumerate(recipients):
        groups.setdefault(B_scan, []).append((i, B_m))
    if any(len(g) > K_MAX for g in groups.values()):
        return None
    out = [None] * len(recipients)
    for B_scan, members in groups.items():
        secret = mul(input_hash * a_sum % N, B_scan)
        for k, (i, B_m) in enumerate(members):
            t_k = output_tweak(secret, k)
            out[i] = xonly(add(B_m, mul(t_k, G)))
    return out


# ------------------------------------------------------------------ receiver
def scanning(b_scan: int, B_spend, A_sum, input_hash: int, outputs_to_check: list, labels: dict | None = None):
    """outputs_to_check: 32-byte x-only keys; labels: {point: tweak int}. -> [(xonly bytes, tweak int)] in k order"""
    labels = labels or {}
    secret = mul(input_hash * b_scan % N, A_sum)
    remaining = [(o, lift_x(o)) for o in outputs_to_check]
    found = []
    k = 0
    while k < K_MAX:
        t_k = output_tweak(secret, k)
        P_k = add(B_spend, mul(t_k, G))
        hit = None
        for idx, (raw, out) in enumerate(remaining):
            if out is None:
                continue
            if P_k[0] == out[0]:
                hit = (idx, raw, t_k)
                break
            if labels:
                for cand in (out, neg(out)):
                    m_G = add(cand, neg(P_k))
                    if m_G in labels:
                        hit = (idx, xonly(add(P_k, m_G)), (t_k + labels[m_G]) % N)
                        break
                if hit:
                    break
        if hit is None:
            break
        remaining.pop(hit[0])
        found.append((hit[1], hit[2]))
        k += 1
    return found


# ------------------------------------------------------------------ validation on the BIP's vectors
def _witness_stack(hexstr: str) -> list:
    b = bytes.fromhex(hexstr)
    if not b:
        return []

    def cs(pos):
        v = b[pos]
        if v < 0xFD:
            return v, pos + 1
        size = {0xFD: 2, 0xFE: 4, 0xFF: 8}[v]
        return int.from_bytes(b[pos + 1 : pos + 1 + size], "little"), pos + 1 + size

    n, pos = cs(0)
    out = []
    for _ in range(n):
        ln, pos = cs(pos)
        out.append(b[pos : pos + ln])
        pos += ln
    return out


def validate(vectors, skip_kmax: bool = True) -> list[str]:
    bad = []
    for ci, case in enumerate(vectors):
        name = case["comment"]
        big = "K_max" in name
        for s in case["sending"]:
            g, e = s["given"], s["expected"]
            keys, ops = [], []
            for vin in g["vin"]:
                spk = bytes.fromhex(vin["prevout"]["scriptPubKey"]["hex"])
                ops.append(outpoint_bytes(vin["txid"], vin["vout"]))
                Pt = get_pubkey_from_input(spk, bytes.fromhex(vin["scriptSig"]), _witness_stack(vin["txinwitness"]))
                if Pt is not None:
                    keys.append((int(vin["private_key"], 16), is_p2tr(spk)))
            recips = []
            for r in g["recipients"]:
                hrp, ver, B_scan, B_m = decode_address(r["address"])
                if cbytes(B_scan).hex() != r["scan_pub_key"] or cbytes(B_m).hex() != r["spend_pub_key"] or encode_address(B_scan, B_m, hrp) != r["address"]:
                    bad.append(f"{ci} address codec")
                recips += [(B_scan, B_m)] * r.get("count", 1)
            outs = create_outputs(keys, ops, recips) if keys else None
            got = sorted(o.hex() for o in outs) if outs else []
            if not any(got == sorted(alt) for alt in e["outputs"]):
                bad.append(f"{ci} sending: {name}")
        for r in case["receiving"]:
            if big and skip_kmax:
                continue
            g, e = r["given"], r["expected"]
            b_scan, b_spend = int(g["key_material"]["scan_priv_key"], 16), int(g["key_material"]["spend_priv_key"], 16)
            B_scan, B_spend = mul(b_scan, G), mul(b_spend, G)
            addrs = [encode_address(B_scan, B_spend)] + [encode_address(B_scan, labeled_spend_key(b_scan, B_spend, m)) for m in g["labels"]]
            if set(addrs) != set(e["addresses"]):
                bad.append(f"{ci} receiving addresses: {name}")
            pubs, ops = [], []
            for vin in g["vin"]:
                spk = bytes.fromhex(vin["prevout"]["scriptPubKey"]["hex"])
                ops.append(outpoint_bytes(vin["txid"], vin["vout"]))
                Pt = get_pubkey_from_input(spk, bytes.fromhex(vin["scriptSig"]), _witness_stack(vin["txinwitness"]))
                if Pt is not None:
                    pubs.append(Pt)
            A_sum = None
            for Pt in pubs:
                A_sum = add(A_sum, Pt)
            if A_sum is None:
                found = []
            else:
                labels = {mul(generate_label(b_scan, m), G): generate_label(b_scan, m) for m in g["labels"]}
                found = scanning(b_scan, B_spend, A_sum, get_input_hash(ops, A_sum), [bytes.fromhex(o) for o in g["outputs"]], labels)
            if "n_outputs" in e:
                if len(found) != e["n_outputs"]:
                    bad.append(f"{ci} receiving count: {name}")
                continue
            want = sorted((o["pub_key"], o["priv_key_tweak"]) for o in e["outputs"])
            if sorted((x.hex(), t.to_bytes(32, "big").hex()) for x, t in found) != want:
                bad.append(f"{ci} receiving: {name}")
            for x, t in found:
                if xonly(mul((b_spend + t) % N, G)) != x:
                    bad.append(f"{ci} receiving spend key: {name}")
    return bad
