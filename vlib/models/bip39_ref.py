"""BIP39 transcribed from bip-0039.mediawiki (stdlib only).

    ENT in {128,160,192,224,256};  CS = ENT/32 leading bits of SHA256(ENT bytes);
    ENT||CS split in 11-bit groups -> words;  12/15/18/21/24 words.
    seed = PBKDF2-HMAC-SHA512(password = NFKD(sentence), salt = "mnemonic" + NFKD(passphrase), 2048 rounds, 64 bytes)

The word lists are data: read from the model's own copies under vectors/wordlists (one word per line; the copies are the
upstream files -- english.txt is checked against the digest bitcoin/bips publishes, the rest are pinned in SHA256SUMS), so that
a word changed in a list the library ships shows as a difference on every sentence that uses it.
The model never imports btclib.
"""

from __future__ import annotations

import hashlib
import os
import unicodedata

DATA = os.path.join(os.path.dirname(os.path.dirname(os.path.dirname(os.path.abspath(__file__)))), "vectors", "wordlists")
ENGLISH_SHA256 = "2f5eed53a4727b4bf8880d8f3f199efc90e58503646d9ff8eff3a2ed3b24dbda"  # bip-0039/english.txt


def check_word_files() -> None:
    """the vendored lists are the pinned ones (raises ValueError)"""
    with open(os.path.join(DATA, "SHA256SUMS"), encoding="ascii") as f:
        pinned = dict(reversed(line.split()) for line in f if line.strip())
    if pinned.get("english.txt") != ENGLISH_SHA256:
        raise ValueError("english.txt is not pinned to the published digest")
    for name, digest in pinned.items():
        with open(os.path.join(DATA, name), "rb") as f:
            if hashlib.sha256(f.read()).hexdigest() != digest:
                raise ValueError(f"vectors/wordlists/{name} differs from its pinned digest")

# language code -> file (BIP39's ten lists + the two trezor/python-mnemonic adds)
FILES = {
    "cs": "czech.txt", "en": "english.txt", "es": "spanish.txt", "fr": "french.txt", "it": "italian.txt", "ja": "japanese.txt",
    "ko": "korean.txt", "pt": "portuguese.txt", "ru": "russian.txt", "tr": "turkish.txt", "zh": "chinese_simplified.txt", "zh_tw": "chinese_traditional.txt",
}
LANGS = list(FILES)
ENT_SIZES = (128, 160, 192, 224, 256)
WORD_COUNTS = (12, 15, 18, 21, 24)
_cache: dict[str, tuple[list[str], dict[str, int]]] = {}


def nfkd(s: str) -> str:
    return unicodedata.normalize("NFKD", s)


def read_wordfile(filename: str) -> list[str]:
    """One word per line; '#' starts a comment; words NFKD."""
    out = []
    with open(os.path.join(DATA, filename), encoding="utf-8") as f:
        for line in f:
            w = line.split("#")[0].strip()
            if w:
                out.append(nfkd(w))
    return out


def wordlist(lang: str) -> list[str]:
    return _load(lang)[0]


def _load(lang: str):
    if lang not in _cache:
        words = read_wordfile(FILES[lang])
        if len(words) != 2048 or len(set(words)) != 2048:
            raise ValueError(f"bip39 list {lang}: {len(words)} words")
        _cache[lang] = (words, {w: i for i, w in enumerate(words)})
    return _cache[lang]


def checksum_bits(ent: bytes) -> str:
    cs = len(ent) * 8 // 32
    h = hashlib.sha256(ent).digest()
    return bin(int.from_bytes(h, "big"))[2:].zfill(256)[:cs]


def indexes_from_entropy(ent: bytes) -> list[int]:
    if len(ent) * 8 not in ENT_SIZES:
        raise ValueError("ENT size")
    bits = bin(int.from_bytes(ent, "big"))[2:].zfill(len(ent) * 8) + checksum_bits(ent)
    return [int(bits[i : i + 11], 2) for i in range(0, len(bits), 11)]


def words_from_entropy(ent: bytes, lang: str) -> list[str]:
    wl = wordlist(lang)
    return [wl[i] for i in indexes_from_entropy(ent)]


def sentence(words: list[str]) -> str:
    """The sentence as the seed stretches it: NFKD words, single U+0020 between."""
    return " ".join(words)


def split_words(mnemonic: str) -> list[str]:
    """NFKD first (U+3000 becomes a space), then whitespace-separated words."""
    return nfkd(mnemonic).split()


def entropy_from_words(words: list[str], lang: str):
    """bytes of ENT if `words` is a valid BIP39 sentence in `lang`, else None."""
    idx = _load(lang)[1]
    if len(words) not in WORD_COUNTS:
        return None
    try:
        ii = [idx[w] for w in words]
    except KeyError:
        return None
    bits = "".join(bin(i)[2:].zfill(11) for i in ii)
    ent_bits = len(bits) * 32 // 33
    ent = int(bits[:ent_bits], 2).to_bytes(ent_bits // 8, "big")
    if bits[ent_bits:] != checksum_bits(ent):
        return None
    return ent


def langs_holding(words: list[str]) -> list[str]:
    return [l for l in LANGS if all(w in _load(l)[1] for w in words)]


def valid_readings(words: list[str]) -> dict[str, bytes]:
    """lang -> entropy for every language in which the sentence is valid."""
    out = {}
    for l in langs_holding(words):
        e = entropy_from_words(words, l)
        if e is not None:
            out[l] = e
    return out


def seed(mnemonic: str, passphrase: str = "") -> bytes:
    return hashlib.pbkdf2_hmac("sha512", nfkd(mnemonic).encode("utf-8"), ("mnemonic" + nfkd(passphrase)).encode("utf-8"), 2048, 64)
