"""Output descriptors (BIP380..BIP390 + Core's rawtr) — an independent model: checksum, grammar, key derivation, script assembly.

stdlib + sibling models only, no btclib.  What is transcribed from where:

* `descsum_*`            BIP380's reference Python (descsum_polymod / descsum_expand / descsum_check / descsum_create).
* `XK`, `ckd`, ...        BIP32 CKDpriv / CKDpub / serialization over fastec (validated here on BIP32's own vectors and against bip32_ref).
* `parse`                 BIP380 grammar: SCRIPT functions with their position rules (BIP381..386), KEY expressions (origin, hex/WIF/xpub/xprv,
                          path with h or ', final /* /*h /*'), BIP387 multi_a/sortedmulti_a, BIP390 musig(), Core's rawtr().  The result is a
                          JSON-able tree (see `parse`), which is also what the generator builds directly, so text and tree are two routes.
* `scripts`               hand assembly: 21<key>ac, 76a914<h160>88ac, 0014<h160>, a914<h160(script)>87, 0020<sha256(script)>,
                          k <keys> n ae with BIP67 order for sortedmulti, BIP341 output key (bip341_ref tree hashing + fastec tweak),
                          BIP387 CHECKSIG/CHECKSIGADD/NUMEQUAL, BIP390 = BIP327 KeyAgg over KeySort + BIP328 synthetic xpub.
* `public_string`         what BIP380 says a descriptor without private keys looks like (Core's ToString): WIF -> hex, xprv -> xpub,
                          one hardening symbol per key expression (the last one read).
* `address_of`            Base58Check / Bech32(m) of the standard script forms, prefixes from the network tables shipped by btclib (data).
"""

from __future__ import annotations

import hashlib
import hmac
import json
import os
import re
from functools import lru_cache

from . import base58_ref as b58
from . import bip327_ref
from . import bip341_ref
from . import fastec as ec
from . import segwit_addr_ref as bech

HARD = 0x80000000


class DescError(Exception):
    """The model refuses the descriptor (grammar / range / key)."""


class NeedPrivate(DescError):
    """A hardened step below a public extended key."""


class Unsupported(Exception):
    """Outside the model (miniscript bodies): no script oracle."""


# ---------------------------------------------------------------- networks (data files of btclib, read as data)
_DATA = os.path.join(os.environ.get("VERIF_REPO", "/repo"), "btclib", "_data")
NETWORK_NAMES = ["mainnet", "testnet", "regtest", "signet", "testnet4"]


@lru_cache(maxsize=None)
def network(name: str) -> dict:
    with open(os.path.join(_DATA, f"{name}.json")) as f:
        d = json.load(f)
    return {
        "type": d["network_type"],
        "wif": bytes.fromhex(d["wif"]),
        "p2pkh": bytes.fromhex(d["p2pkh"]),
        "p2sh": bytes.fromhex(d["p2sh"]),
        "hrp": d["hrp"],
        "prv": bytes.fromhex(d["bip32_prv"]),
        "pub": bytes.fromhex(d["bip32_pub"]),
    }


def _version_info(version: bytes):
    """-> (is_private, network type) of a BIP32 version, None if unknown."""
    for name in NETWORK_NAMES:
        net = network(name)
        if version == net["prv"]:
            return True, net["type"]
        if version == net["pub"]:
            return False, net["type"]
    return None


# ---------------------------------------------------------------- BIP380 checksum (the BIP's reference code)
INPUT_CHARSET = "0123456789()[],'/*abcdefgh@:$%{}IJKLMNOPQRSTUVWXYZ&+-.;<=>?!^_|~ijklmnopqrstuvwxyzABCDEFGH`#\"\\ "
CHECKSUM_CHARSET = "qpzry9x8gf2tvdw0s3jn54khce6mua7l"
GENERATOR = [0xF5DEE51989, 0xA9FDCA3312, 0x1BAB10E32D, 0x3706B1677A, 0x644D626FFD]


def descsum_polymod(symbols):
    """Internal function that computes the descriptor checksum."""
    chk = 1
    for value in symbols:
        top = chk >> 35
        chk = (chk & 0x7FFFFFFFF) << 5 ^ value
        for i in range(5):
            chk ^= GENERATOR[i] if ((top >> i) & 1) else 0
    return chk


def descsum_expand(s):
    """Internal function that does the character to symbol expansion"""
    groups = []
    symbols = []
    for c in s:
        if c not in INPUT_CHARSET:
            return None
        v = INPUT_CHARSET.find(c)
        symbols.append(v & 31)
        groups.append(v >> 5)
        if len(groups) == 3:
            symbols.append(groups[0] * 9 + groups[1] * 3 + groups[2])
            groups = []
    if len(groups) == 1:
        symbols.append(groups[0])
    elif len(groups) == 2:
        symbols.append(groups[0] * 3 + groups[1])
    return symbols


def descsum_check(s):
    """Verify that the checksum is correct in a descriptor"""
    if len(s) < 9 or s[-9] != "#":
        return False
    if not all(x in CHECKSUM_CHARSET for x in s[-8:]):
        return False
    expanded = descsum_expand(s[:-9])
    if expanded is None:
        return False
    symbols = expanded + [CHECKSUM_CHARSET.find(x) for x in s[-8:]]
    return descsum_polymod(symbols) == 1


def descsum_create(s):
    """Add a checksum to a descriptor without"""
    expanded = descsum_expand(s)
    if expanded is None:
        raise DescError("character outside the input charset")
    symbols = expanded + [0, 0, 0, 0, 0, 0, 0, 0]
    checksum = descsum_polymod(symbols) ^ 1
    return s + "#" + "".join(CHECKSUM_CHARSET[(checksum >> (5 * (7 - i))) & 31] for i in range(8))


def text_is_acceptable(s: str) -> bool:
    """The checksum layer's verdict on a descriptor string: no '#' -> body must be in the charset; one '#' -> descsum_check."""
    if s.count("#") == 0:
        return descsum_expand(s) is not None
    if s.count("#") > 1:
        return False
    return descsum_check(s)


# ---------------------------------------------------------------- hashes, script bytes
def sha256(b: bytes) -> bytes:
    return hashlib.sha256(b).digest()


def hash160(b: bytes) -> bytes:
    return hashlib.new("ripemd160", sha256(b)).digest()


def push(data: bytes) -> bytes:
    n = len(data)
    if n < 0x4C:
        return bytes([n]) + data
    if n <= 0xFF:
        return b"\x4c" + bytes([n]) + data
    return b"\x4d" + n.to_bytes(2, "little") + data


def scriptnum(v: int) -> bytes:
    """CScriptNum serialization (minimal, little-endian, sign bit)."""
    if v == 0:
        return b""
    neg, a = v < 0, abs(v)
    out = bytearray()
    while a:
        out.append(a & 0xFF)
        a >>= 8
    if out[-1] & 0x80:
        out.append(0x80 if neg else 0)
    elif neg:
        out[-1] |= 0x80
    return bytes(out)


def push_int(v: int) -> bytes:
    """A number the way CScript << int64 writes it: OP_0, OP_1..OP_16, else a CScriptNum push."""
    if v == 0:
        return b"\x00"
    if 1 <= v <= 16:
        return bytes([0x50 + v])
    return push(scriptnum(v))


def p2pk(sec: bytes) -> bytes:
    return push(sec) + b"\xac"


def p2pkh(sec: bytes) -> bytes:
    return b"\x76\xa9\x14" + hash160(sec) + b"\x88\xac"


def p2wpkh(sec: bytes) -> bytes:
    return b"\x00\x14" + hash160(sec)


def p2sh(script: bytes) -> bytes:
    return b"\xa9\x14" + hash160(script) + b"\x87"


def p2wsh(script: bytes) -> bytes:
    return b"\x00\x20" + sha256(script)


def multisig(k: int, secs: list[bytes], verify: bool = False) -> bytes:
    if not 1 <= k <= len(secs) <= 16:
        raise DescError("multisig bounds")
    return bytes([0x50 + k]) + b"".join(push(s) for s in secs) + bytes([0x50 + len(secs)]) + (b"\xaf" if verify else b"\xae")


def multi_a(k: int, xonly: list[bytes]) -> bytes:
    if not 1 <= k <= len(xonly) <= 999:
        raise DescError("multi_a bounds")
    out = push(xonly[0]) + b"\xac"
    for x in xonly[1:]:
        out += push(x) + b"\xba"
    return out + push_int(k) + b"\x9c"


def taproot_output(internal32: bytes, tree) -> bytes:
    """tree: None | ("leaf", 0xc0, script) | ("branch", l, r) as bip341_ref.tree_helper takes it."""
    root = b"" if tree is None else bip341_ref.tree_helper(tree)[1]
    out32, _parity = ec.tap_tweak_pubkey(internal32, root)
    return b"\x51\x20" + out32


# ---------------------------------------------------------------- points and keys
def ser_point(P, compressed: bool = True) -> bytes:
    if compressed:
        return bytes([2 + (P[1] & 1)]) + P[0].to_bytes(32, "big")
    return b"\x04" + P[0].to_bytes(32, "big") + P[1].to_bytes(32, "big")


@lru_cache(maxsize=4096)
def pub_of(k: int):
    return ec.mul(k, ec.G)


def parse_sec(sec: bytes):
    """SEC bytes as a descriptor admits them (02/03 compressed, 04 uncompressed, no hybrids) -> point, DescError."""
    if len(sec) == 33 and sec[0] in (2, 3) or len(sec) == 65 and sec[0] == 4:
        P = ec.parse_pubkey(sec)
        if P is not None:
            return P
    raise DescError("invalid public key")


def wif_decode(s: str):
    """-> (k, compressed, network type)"""
    payload = b58.check_decode(s)
    if payload is None or len(payload) not in (33, 34):
        raise DescError("not a WIF")
    types = [network(n)["type"] for n in NETWORK_NAMES if network(n)["wif"] == payload[:1]]
    if not types or (len(payload) == 34 and payload[-1] != 1):
        raise DescError("not a WIF")
    k = int.from_bytes(payload[1:33], "big")
    if not 0 < k < ec.N:
        raise DescError("WIF out of range")
    return k, len(payload) == 34, types[0]


def wif_encode(k: int, compressed: bool, net: str) -> str:
    return b58.check_encode(network(net)["wif"] + k.to_bytes(32, "big") + (b"\x01" if compressed else b""))


class XK:
    """A BIP32 extended key: k is None for a public one.  The point of a private key and the parent fingerprint are computed on demand."""

    __slots__ = ("version", "depth", "_pfp", "index", "cc", "k", "_P", "_parent")

    def __init__(self, version, depth, pfp, index, cc, k, P, parent=None):
        self.version, self.depth, self._pfp, self.index, self.cc, self.k, self._P, self._parent = version, depth, pfp, index, cc, k, P, parent

    @property
    def P(self):
        if self._P is None:
            self._P = pub_of(self.k)
        return self._P

    @property
    def pfp(self) -> bytes:
        if self._pfp is None:
            self._pfp = self._parent.fingerprint
        return self._pfp

    @property
    def is_private(self) -> bool:
        return self.k is not None

    @property
    def sec(self) -> bytes:
        return ser_point(self.P)

    @property
    def fingerprint(self) -> bytes:
        return hash160(self.sec)[:4]

    @property
    def net_type(self) -> str:
        return _version_info(self.version)[1]


def xk_decode(s: str) -> XK:
    payload = b58.check_decode(s)
    if payload is None or len(payload) != 78:
        raise DescError("not an extended key")
    info = _version_info(payload[:4])
    if info is None:
        raise DescError("unknown extended key version")
    depth, pfp, index, cc, key = payload[4], payload[5:9], int.from_bytes(payload[9:13], "big"), payload[13:45], payload[45:]
    if depth == 0 and (pfp != b"\x00" * 4 or index != 0):
        raise DescError("master key with a parent")
    if info[0]:
        k = int.from_bytes(key[1:], "big")
        if key[0] != 0 or not 0 < k < ec.N:
            raise DescError("invalid private key")
        return XK(payload[:4], depth, pfp, index, cc, k, None)
    return XK(payload[:4], depth, pfp, index, cc, None, parse_sec(key))


def xk_encode(x: XK) -> str:
    key = b"\x00" + x.k.to_bytes(32, "big") if x.is_private else x.sec
    return b58.check_encode(x.version + bytes([x.depth]) + x.pfp + x.index.to_bytes(4, "big") + x.cc + key)


def xk_neuter(x: XK) -> XK:
    if not x.is_private:
        return x
    for name in NETWORK_NAMES:
        net = network(name)
        if net["prv"] == x.version:
            return XK(net["pub"], x.depth, x.pfp, x.index, x.cc, None, x.P)
    raise DescError("unknown version")


def xk_master(seed: bytes, version: bytes) -> XK:
    I = hmac.new(b"Bitcoin seed", seed, hashlib.sha512).digest()
    k = int.from_bytes(I[:32], "big")
    if not 0 < k < ec.N:
        raise DescError("invalid master")
    return XK(version, 0, b"\x00" * 4, 0, I[32:], k, None)


def ckd(x: XK, i: int) -> XK:
    """CKDpriv for a private key, CKDpub for a public one (BIP32)."""
    if x.depth >= 255:
        raise DescError("depth")
    if x.is_private:
        data = (b"\x00" + x.k.to_bytes(32, "big") if i >= HARD else x.sec) + i.to_bytes(4, "big")
        I = hmac.new(x.cc, data, hashlib.sha512).digest()
        il = int.from_bytes(I[:32], "big")
        k = (il + x.k) % ec.N
        if il >= ec.N or k == 0:
            raise DescError("invalid child")
        return XK(x.version, x.depth + 1, None, i, I[32:], k, None, x)
    if i >= HARD:
        raise NeedPrivate("hardened derivation from a public key")
    I = hmac.new(x.cc, x.sec + i.to_bytes(4, "big"), hashlib.sha512).digest()
    il = int.from_bytes(I[:32], "big")
    if il >= ec.N:
        raise DescError("invalid child")
    J = ec.jadd(ec.jmul(il, ec.G), (x.P[0], x.P[1], 1))
    P = ec.to_affine(J)
    if P is None:
        raise DescError("invalid child")
    return XK(x.version, x.depth + 1, None, i, I[32:], None, P, x)


def derive(x: XK, path) -> XK:
    for i in path:
        x = ckd(x, i)
    return x


BIP328_CHAIN_CODE = sha256(b"MuSig2MuSig2MuSig2")


# ---------------------------------------------------------------- grammar: text -> tree
TOP, P2SH, P2WSH, P2TR = "top", "sh", "wsh", "tr"
_ALLOWED = {
    "pk": (TOP, P2SH, P2WSH),
    "pkh": (TOP, P2SH, P2WSH),
    "wpkh": (TOP, P2SH),
    "combo": (TOP,),
    "sh": (TOP,),
    "wsh": (TOP, P2SH),
    "multi": (TOP, P2SH, P2WSH),
    "sortedmulti": (TOP, P2SH, P2WSH),
    "tr": (TOP,),
    "rawtr": (TOP,),
    "addr": (TOP,),
    "raw": (TOP,),
}
_NUM = re.compile(r"[0-9]+")
_HEXRE = re.compile(r"[0-9a-fA-F]*")


def split_args(s: str) -> list[str]:
    depth, start, out = 0, 0, []
    for i, c in enumerate(s):
        if c in "({":
            depth += 1
        elif c in ")}":
            depth -= 1
            if depth < 0:
                raise DescError("unbalanced")
        elif c == "," and depth == 0:
            out.append(s[start:i])
            start = i + 1
    if depth:
        raise DescError("unbalanced")
    out.append(s[start:])
    return out


def _step(s: str):
    sym = s[-1] if s and s[-1] in "h'" else ""
    num = s[:-1] if sym else s
    if not _NUM.fullmatch(num) or int(num) >= HARD:
        raise DescError(f"invalid path step {s!r}")
    return int(num) + (HARD if sym else 0), sym


def _path(steps: list[str]):
    idx, last = [], None
    for s in steps:
        i, sym = _step(s)
        idx.append(i)
        last = sym or last
    return idx, last


def _parse_key(expr: str, *, xonly_ok: bool, compressed_only: bool, musig_ok: bool) -> dict:
    if expr.startswith("musig("):
        if not musig_ok:
            raise DescError("musig() not allowed here")
        close = expr.rfind(")")
        parts = [_parse_key(p, xonly_ok=False, compressed_only=True, musig_ok=False) for p in split_args(expr[6:close])]
        suffix = expr[close + 1 :]
        path, wild = [], None
        if suffix:
            if not suffix.startswith("/"):
                raise DescError("musig suffix")
            steps = suffix[1:].split("/")
            if steps[-1] in ("*h", "*'"):
                raise DescError("hardened musig wildcard")
            if steps[-1] == "*":
                wild, steps = "u", steps[:-1]
            path, _ = _path(steps)
            if any(i >= HARD for i in path):
                raise DescError("hardened musig step")
            if any(p["kind"] not in ("xpub", "xprv") for p in parts):
                raise DescError("musig derivation needs extended participants")
            if any(p["wild"] for p in parts):
                raise DescError("ranged participants and musig derivation")
        return {"t": "musig", "parts": parts, "path": path, "wild": wild}
    origin, sym = None, None
    rest = expr
    if expr.startswith("["):
        end = expr.find("]")
        if end < 0:
            raise DescError("origin")
        body = expr[1:end].split("/")
        if not re.fullmatch(r"[0-9a-fA-F]{8}", body[0]):
            raise DescError("fingerprint")
        opath, sym = _path([s for s in body[1:]] if body[1:] != [""] else [])
        origin = {"fp": body[0].lower(), "path": opath}
        rest = expr[end + 1 :]
    if any(c in rest for c in "[]<>("):
        raise DescError("not a key expression")
    key, *steps = rest.split("/")
    payload = b58.check_decode(key) if not _HEXRE.fullmatch(key) else None
    if payload is not None and len(payload) == 78:
        x = xk_decode(key)
        wild = None
        if steps and steps[-1] in ("*", "*h", "*'"):
            wild = "u" if steps[-1] == "*" else "h"
            wsym = steps[-1][1:]
            steps = steps[:-1]
        else:
            wsym = ""
        path, psym = _path(steps)
        sym = wsym or psym or sym
        return {"t": "k", "origin": origin, "kind": "xprv" if x.is_private else "xpub", "text": key, "path": path, "wild": wild, "sym": sym}
    if steps:
        raise DescError("path after a key that cannot derive")
    if _HEXRE.fullmatch(key):
        raw = bytes.fromhex(key) if len(key) % 2 == 0 else b""
        if len(raw) == 32:
            if not xonly_ok:
                raise DescError("x-only key outside taproot")
            if ec.lift_x(int.from_bytes(raw, "big")) is None:
                raise DescError("x-only key not on the curve")
        else:
            parse_sec(raw)
        if len(raw) == 65 and compressed_only:
            raise DescError("uncompressed key not allowed here")
        return {"t": "k", "origin": origin, "kind": "hex", "text": key.lower(), "path": [], "wild": None, "sym": sym}
    _k, comp, _nt = wif_decode(key)
    if not comp and compressed_only:
        raise DescError("uncompressed key not allowed here")
    return {"t": "k", "origin": origin, "kind": "wif", "text": key, "path": [], "wild": None, "sym": sym}


def _parse_leaf_or_tree(expr: str, depth: int):
    if depth > 128:
        raise DescError("tree too deep")
    if expr.startswith("{"):
        if not expr.endswith("}"):
            raise DescError("braces")
        parts = split_args(expr[1:-1])
        if len(parts) != 2:
            raise DescError("a branch has two subtrees")
        return [_parse_leaf_or_tree(parts[0], depth + 1), _parse_leaf_or_tree(parts[1], depth + 1)]
    name = expr.partition("(")[0]
    if not expr.endswith(")") or "(" not in expr:
        raise DescError("leaf")
    args = split_args(expr[len(name) + 1 : -1])
    if name == "pk":
        if len(args) != 1:
            raise DescError("pk arity")
        return {"f": "pk", "key": _parse_key(args[0], xonly_ok=True, compressed_only=True, musig_ok=True)}
    if name in ("multi_a", "sortedmulti_a"):
        if len(args) < 2 or not _NUM.fullmatch(args[0]):
            raise DescError("multi_a")
        return {"f": name, "k": int(args[0]), "keys": [_parse_key(a, xonly_ok=True, compressed_only=True, musig_ok=True) for a in args[1:]]}
    if name in _ALLOWED or name == "musig":
        raise DescError(f"{name}() is not a tree leaf")
    return {"f": "ms", "text": expr}


def _parse_script(expr: str, ctx: str) -> dict:
    name = expr.partition("(")[0]
    if "(" not in expr or not expr.endswith(")") or not name:
        raise DescError("not a function")
    if name not in _ALLOWED:
        if name in ("multi_a", "sortedmulti_a", "musig"):
            raise DescError(f"{name}() not allowed in {ctx}")
        if ctx == P2WSH:
            return {"f": "ms", "text": expr}
        raise DescError(f"unknown function {name}")
    if ctx not in _ALLOWED[name]:
        raise DescError(f"{name}() not allowed in {ctx}")
    args = split_args(expr[len(name) + 1 : -1])
    no_unc = ctx == P2WSH
    if name in ("pk", "pkh", "wpkh", "combo", "rawtr"):
        if len(args) != 1:
            raise DescError("arity")
        tap = name == "rawtr"
        key = _parse_key(args[0], xonly_ok=tap, compressed_only=no_unc or name == "wpkh" or tap, musig_ok=tap)
        return {"f": name, "key": key}
    if name in ("sh", "wsh"):
        if len(args) != 1:
            raise DescError("arity")
        return {"f": name, "arg": _parse_script(args[0], P2SH if name == "sh" else P2WSH)}
    if name in ("multi", "sortedmulti"):
        if len(args) < 2 or not _NUM.fullmatch(args[0]):
            raise DescError("multi")
        return {"f": name, "k": int(args[0]), "keys": [_parse_key(a, xonly_ok=False, compressed_only=no_unc, musig_ok=False) for a in args[1:]]}
    if name == "tr":
        if not 1 <= len(args) <= 2:
            raise DescError("tr arity")
        key = _parse_key(args[0], xonly_ok=True, compressed_only=True, musig_ok=True)
        return {"f": "tr", "key": key, "tree": None if len(args) == 1 else _parse_leaf_or_tree(args[1], 0)}
    if name == "addr":
        if len(args) != 1:
            raise DescError("arity")
        script_of_address(args[0])
        return {"f": "addr", "addr": args[0]}
    if len(args) != 1 or not _HEXRE.fullmatch(args[0]) or len(args[0]) % 2:
        raise DescError("raw")
    return {"f": "raw", "hex": args[0].lower()}


def parse(text: str) -> dict:
    """Descriptor text (checksum optional, verified if present) -> tree.

    SCRIPT nodes: {"f": pk|pkh|wpkh|combo|rawtr, "key": K} | {"f": sh|wsh, "arg": S} | {"f": multi|sortedmulti, "k": n, "keys": [K]}
      | {"f": "tr", "key": K, "tree": T|None} | {"f": "addr", "addr": s} | {"f": "raw", "hex": s} | {"f": "ms", "text": s} (opaque miniscript)
    TREE: [T, T] | {"f": "pk", "key": K} | {"f": multi_a|sortedmulti_a, "k": n, "keys": [K]} | {"f": "ms", "text": s}
    KEY: {"t": "k", "origin": {"fp", "path"}|None, "kind": hex|wif|xpub|xprv, "text", "path", "wild": None|"u"|"h", "sym": last hardening symbol|None}
      | {"t": "musig", "parts": [KEY], "path", "wild": None|"u"}
    """
    if not text_is_acceptable(text):
        raise DescError("checksum / charset")
    return _parse_script(text.partition("#")[0], TOP)


# ---------------------------------------------------------------- tree -> keys, scripts
def node_keys(node) -> list[dict]:
    if isinstance(node, list):
        return node_keys(node[0]) + node_keys(node[1])
    f = node["f"]
    if f in ("pk", "pkh", "wpkh", "combo", "rawtr"):
        return [node["key"]]
    if f in ("sh", "wsh"):
        return node_keys(node["arg"])
    if f in ("multi", "sortedmulti", "multi_a", "sortedmulti_a"):
        return list(node["keys"])
    if f == "tr":
        return [node["key"]] + (node_keys(node["tree"]) if node["tree"] is not None else [])
    if f == "ms":
        return list(node.get("keys", []))
    return []


def key_is_ranged(key) -> bool:
    if key["t"] == "musig":
        return key["wild"] is not None or any(key_is_ranged(p) for p in key["parts"])
    return key["wild"] is not None


def is_ranged(node) -> bool:
    return any(key_is_ranged(k) for k in node_keys(node))


def has_private(node) -> bool:
    def priv(k):
        return any(priv(p) for p in k["parts"]) if k["t"] == "musig" else k["kind"] in ("xprv", "wif")

    return any(priv(k) for k in node_keys(node))


def _check_net(nt: str, net: str):
    if nt != network(net)["type"]:
        raise DescError("key of another network")


@lru_cache(maxsize=512)
def _xk_cached(text: str) -> XK:
    return xk_decode(text)


def key_sec(key: dict, index: int, net: str, use_private: bool = True) -> bytes:
    """SEC bytes of a KEY at `index` (x-only keys as 02||x).  use_private: True = the key's own xprv, False = public only, dict = held private keys."""
    if key["t"] == "musig":
        agg = musig_aggregate(key, index, net, use_private)
        path = list(key["path"]) + ([index] if key["wild"] else [])
        if not path:
            return agg
        syn = XK(network(net)["pub"], 0, b"\x00" * 4, 0, BIP328_CHAIN_CODE, None, parse_sec(agg))
        return derive(syn, path).sec
    kind = key["kind"]
    if kind == "hex":
        raw = bytes.fromhex(key["text"])
        return b"\x02" + raw if len(raw) == 32 else raw
    if kind == "wif":
        k, comp, _nt = wif_decode(key["text"])
        return ser_point(pub_of(k), comp)
    x = _xk_cached(key["text"])
    _check_net(x.net_type, net)
    if use_private is True:
        pass  # the key's own private half, if it is written as an xprv
    elif not use_private:
        x = xk_neuter(x)
    else:
        # a mapping public text -> private text, as BIP380 implementations hand private keys back to a caller:
        # whichever key expression spelled the xprv, every expression over the same extended key can use it
        held = use_private.get(_public_text(key["text"]))
        x = _xk_cached(held) if held is not None else xk_neuter(x)
    path = list(key["path"])
    if key["wild"]:
        path.append(index + (HARD if key["wild"] == "h" else 0))
    return derive(x, path).sec


@lru_cache(maxsize=512)
def _public_text(text: str) -> str:
    return xk_encode(xk_neuter(_xk_cached(text)))


def private_keys(node) -> dict:
    """{xpub text: xprv text} of every xprv written anywhere in the tree."""
    out: dict = {}

    def one(k):
        if k["t"] == "musig":
            for p in k["parts"]:
                one(p)
        elif k["kind"] == "xprv":
            out[_public_text(k["text"])] = k["text"]

    for k in node_keys(node):
        one(k)
    return out


def musig_participants(key: dict, index: int, net: str, use_private: bool = True) -> list[bytes]:
    """BIP390: KeySort after derivation."""
    return bip327_ref.key_sort([key_sec(p, index, net, use_private) for p in key["parts"]])


def musig_aggregate(key: dict, index: int, net: str, use_private: bool = True) -> bytes:
    Q = bip327_ref.key_agg(musig_participants(key, index, net, use_private))[0]
    return bip327_ref.cbytes(Q)


def _uncompressed(key) -> bool:
    if key["t"] == "musig":
        return False
    if key["kind"] == "hex":
        return len(key["text"]) == 130
    if key["kind"] == "wif":
        return not wif_decode(key["text"])[1]
    return False


def _ms_script(node, index, net, up, tap: bool) -> bytes:
    """Two fixed miniscript bodies, assembled by hand (BIP379's translation table); anything else is outside this model."""
    tpl = node.get("tpl")
    secs = [key_sec(k, index, net, up) for k in node.get("keys", [])]
    ks = [s[1:] if tap else s for s in secs]
    if tpl == "and_v(v:pk,older)":
        return push(ks[0]) + b"\xad" + push_int(node["n"]) + b"\xb2"
    if tpl == "or_d(pk,and_v(v:pkh,older))":
        return push(ks[0]) + b"\xac\x73\x64\x76\xa9\x14" + hash160(ks[1]) + b"\x88\xad" + push_int(node["n"]) + b"\xb2\x68"
    raise Unsupported(node.get("text", "miniscript"))


def _tap_tree(t, index, net, up):
    if isinstance(t, list):
        return ("branch", _tap_tree(t[0], index, net, up), _tap_tree(t[1], index, net, up))
    return ("leaf", 0xC0, leaf_script(t, index, net, up))


def leaf_script(leaf: dict, index: int, net: str, up: bool = True) -> bytes:
    f = leaf["f"]
    if f == "pk":
        return push(key_sec(leaf["key"], index, net, up)[1:]) + b"\xac"
    if f in ("multi_a", "sortedmulti_a"):
        xs = [key_sec(k, index, net, up)[1:] for k in leaf["keys"]]
        return multi_a(leaf["k"], sorted(xs) if f == "sortedmulti_a" else xs)
    return _ms_script(leaf, index, net, up, True)


def tree_leaves(t) -> list[dict]:
    return tree_leaves(t[0]) + tree_leaves(t[1]) if isinstance(t, list) else [t]


def scripts(node: dict, index: int, net: str, use_private: bool = True) -> list[bytes]:
    """The scriptPubKeys of a descriptor tree at `index`, in Core's order (combo: P2PK, P2PKH, P2WPKH, P2SH-P2WPKH).

    use_private=True: every xprv written in the descriptor is held (for all the expressions over that extended key);
    use_private=False derives as a holder of the public descriptor would (NeedPrivate on a hardened step); a dict is the mapping itself."""
    if not 0 <= index < HARD:
        raise DescError("index out of range")
    if index and not is_ranged(node):
        raise DescError("not ranged")
    return _scripts(node, index, net, private_keys(node) if use_private is True else (use_private or False))


def _one(node, index, net, up) -> bytes:
    s = _scripts(node, index, net, up)
    if len(s) != 1:
        raise DescError("not one script")
    return s[0]


def _scripts(node, index, net, up) -> list[bytes]:
    f = node["f"]
    if f == "pk":
        return [p2pk(key_sec(node["key"], index, net, up))]
    if f == "pkh":
        return [p2pkh(key_sec(node["key"], index, net, up))]
    if f == "wpkh":
        return [p2wpkh(key_sec(node["key"], index, net, up))]
    if f == "combo":
        sec = key_sec(node["key"], index, net, up)
        out = [p2pk(sec), p2pkh(sec)]
        if len(sec) == 33:
            out += [p2wpkh(sec), p2sh(p2wpkh(sec))]
        return out
    if f == "sh":
        return [p2sh(_one(node["arg"], index, net, up))]
    if f == "wsh":
        return [p2wsh(_one(node["arg"], index, net, up))]
    if f in ("multi", "sortedmulti"):
        secs = [key_sec(k, index, net, up) for k in node["keys"]]
        return [multisig(node["k"], sorted(secs) if f == "sortedmulti" else secs)]
    if f == "tr":
        internal = key_sec(node["key"], index, net, up)[1:]
        tree = None if node["tree"] is None else _tap_tree(node["tree"], index, net, up)
        return [taproot_output(internal, tree)]
    if f == "rawtr":
        return [b"\x51\x20" + key_sec(node["key"], index, net, up)[1:]]
    if f == "addr":
        return [script_of_address(node["addr"])[0]]
    if f == "raw":
        return [bytes.fromhex(node["hex"])]
    if f == "ms":
        return [_ms_script(node, index, net, up, False)]
    raise DescError(f"unknown node {f}")


def taproot_merkle_root(node: dict, index: int, net: str, up: bool = True) -> bytes:
    return b"" if node["tree"] is None else bip341_ref.tree_helper(_tap_tree(node["tree"], index, net, up))[1]


# ---------------------------------------------------------------- addresses
def address_of(script: bytes, net: str) -> str | None:
    """The address of the standard forms; None = this model has no opinion (non-standard witness program shapes); "" = no address."""
    n = network(net)
    if len(script) == 25 and script[:3] == b"\x76\xa9\x14" and script[23:] == b"\x88\xac":
        return b58.check_encode(n["p2pkh"] + script[3:23])
    if len(script) == 23 and script[:2] == b"\xa9\x14" and script[22:] == b"\x87":
        return b58.check_encode(n["p2sh"] + script[2:22])
    if len(script) in (22, 34) and script[0] == 0 and script[1] == len(script) - 2:
        return bech.encode(n["hrp"], 0, list(script[2:]))
    if len(script) == 34 and script[:2] == b"\x51\x20":
        return bech.encode(n["hrp"], 1, list(script[2:]))
    if 4 <= len(script) <= 42 and (script[0] == 0 or 0x51 <= script[0] <= 0x60) and script[1] == len(script) - 2:
        return None
    return ""


def script_of_address(addr: str):
    """-> (script, [network names the prefix belongs to]); DescError if it is no address."""
    payload = b58.check_decode(addr)
    if payload is not None and len(payload) == 21:
        nets_pkh = [n for n in NETWORK_NAMES if network(n)["p2pkh"] == payload[:1]]
        nets_sh = [n for n in NETWORK_NAMES if network(n)["p2sh"] == payload[:1]]
        if nets_pkh:
            return b"\x76\xa9\x14" + payload[1:] + b"\x88\xac", nets_pkh
        if nets_sh:
            return b"\xa9\x14" + payload[1:] + b"\x87", nets_sh
        raise DescError("unknown base58 prefix")
    for hrp in sorted({network(n)["hrp"] for n in NETWORK_NAMES}):
        ver, prog = bech.decode(hrp, addr)
        if ver is not None:
            op = 0 if ver == 0 else 0x50 + ver
            return bytes([op, len(prog)]) + bytes(prog), [n for n in NETWORK_NAMES if network(n)["hrp"] == hrp]
    raise DescError("not an address")


# ---------------------------------------------------------------- tree -> text
def _path_text(path, sym) -> str:
    return "".join("/" + (f"{i - HARD}{sym}" if i >= HARD else str(i)) for i in path)


def key_public_string(key: dict, taproot_position: bool) -> str:
    """The public spelling of a KEY: hex for a WIF (x-only where the position is a taproot key), xpub for an xprv, one hardening symbol."""
    if key["t"] == "musig":
        text = "musig(" + ",".join(key_public_string(p, False) for p in key["parts"]) + ")"
        return text + _path_text(key["path"], "h") + ("/*" if key["wild"] else "")
    sym = key["sym"] or "h"
    text = ""
    if key["origin"] is not None:
        text = "[" + key["origin"]["fp"] + _path_text(key["origin"]["path"], sym) + "]"
    if key["kind"] == "hex":
        return text + key["text"]
    if key["kind"] == "wif":
        k, comp, _ = wif_decode(key["text"])
        sec = ser_point(pub_of(k), comp)
        return text + (sec[1:] if taproot_position else sec).hex()
    text += xk_encode(xk_neuter(_xk_cached(key["text"])))
    text += _path_text(key["path"], sym)
    if key["wild"]:
        text += "/*" + (sym if key["wild"] == "h" else "")
    return text


def public_string(node) -> str:
    """Core's ToString of the tree: no private material, no checksum."""
    if isinstance(node, list):
        return "{" + public_string(node[0]) + "," + public_string(node[1]) + "}"
    f = node["f"]
    if f in ("pk", "pkh", "wpkh", "combo"):
        return f"{f}({key_public_string(node['key'], False)})"
    if f == "rawtr":
        return f"rawtr({key_public_string(node['key'], True)})"
    if f in ("sh", "wsh"):
        return f"{f}({public_string(node['arg'])})"
    if f in ("multi", "sortedmulti"):
        return f"{f}({node['k']}," + ",".join(key_public_string(k, False) for k in node["keys"]) + ")"
    if f in ("multi_a", "sortedmulti_a"):
        return f"{f}({node['k']}," + ",".join(key_public_string(k, True) for k in node["keys"]) + ")"
    if f == "tr":
        text = "tr(" + key_public_string(node["key"], True)
        if node["tree"] is not None:
            text += "," + _tree_public_string(node["tree"])
        return text + ")"
    if f == "addr":
        return f"addr({node['addr']})"
    if f == "raw":
        return f"raw({node['hex']})"
    if f == "ms":
        return node["text"]
    raise DescError(f"unknown node {f}")


def _tree_public_string(t) -> str:
    if isinstance(t, list):
        return "{" + _tree_public_string(t[0]) + "," + _tree_public_string(t[1]) + "}"
    if t["f"] == "pk":
        return f"pk({key_public_string(t['key'], True)})"
    return public_string(t)


# ---------------------------------------------------------------- self-validation on public vectors
def validate(load) -> list[str]:
    """load(name) -> parsed JSON of vectors/descriptors/<name>.  Returns the failures (empty = ok)."""
    bad: list[str] = []
    # BIP380 checksum: Core / BIP vectors
    for v in load("descriptor_checksums.json"):
        if descsum_create(v["desc"]) != v["desc"] + "#" + v["checksum"] or not descsum_check(v["desc"] + "#" + v["checksum"]):
            bad.append(f"checksum {v['desc'][:30]}")
    if descsum_check("pk(0279be667ef9dcbbac55a06295ce870b07029bfcdb2dce28d959f2815b16f81798)#gn28ywm8"):
        bad.append("checksum accepts a wrong one")
    # BIP32 vectors
    for vec in load("bip32_test_vectors.json"):
        x = xk_master(bytes.fromhex(vec["seed"]), network("mainnet")["prv"])
        for step in vec["chain"]:
            if step["index"] is not None:
                x = ckd(x, step["index"])
            if xk_encode(x) != step["xprv"] or xk_encode(xk_neuter(x)) != step["xpub"]:
                bad.append(f"bip32 {step['xpub'][:20]}")
            back = xk_decode(step["xprv"])
            if (back.k, back.cc, back.depth, back.index, back.pfp) != (x.k, x.cc, x.depth, x.index, x.pfp):
                bad.append("bip32 decode")
    # public derivation = private derivation, neutered
    x = xk_master(b"\x07" * 16, network("testnet")["prv"])
    if derive(xk_neuter(derive(x, [HARD + 1])), [5, 0x7FFFFFFF]).sec != derive(x, [HARD + 1, 5, 0x7FFFFFFF]).sec:
        bad.append("bip32 public != private")
    from . import bip32_ref

    want = bip32_ref.derive_priv(b"\x07" * 16, [HARD + 1, 5, 0x7FFFFFFF])
    got = derive(x, [HARD + 1, 5, 0x7FFFFFFF])
    if (got.k, got.cc, got.pfp, got.depth, got.index) != (want["k"], want["chain_code"], want["parent_fingerprint"], want["depth"], want["index"]):
        bad.append("bip32 vs bip32_ref")
    if BIP328_CHAIN_CODE.hex() != "868087ca02a6f974c4598924c36b57762d32cb45717167e300622c7167e38965":
        bad.append("bip328 chain code")
    # Bitcoin Core descriptor_tests / BIP387 / BIP390 vectors: scripts at consecutive indexes, both spellings
    for v in load("descriptor_script_vectors.json"):
        for text in (v["private"], v["public"]):
            if text is None:
                continue
            try:
                tree = parse(text)
                for i, want in enumerate(v["scripts"]):
                    got = [s.hex() for s in scripts(tree, i, "mainnet")]
                    if got != want:
                        bad.append(f"{v['source']} scripts {text[:40]} @{i}")
                if is_ranged(tree) != (len(v["scripts"]) > 1):
                    bad.append(f"{v['source']} ranged {text[:40]}")
                if v["public"] is not None and public_string(tree) != v["public"]:
                    bad.append(f"{v['source']} public string {text[:40]}")
            except Exception as e:  # noqa: BLE001
                bad.append(f"{v['source']} {text[:40]}: {type(e).__name__} {e}")
    for text in load("descriptor_hardened_public.json"):
        try:
            scripts(parse(text), 0, "mainnet")
            bad.append(f"hardened public derived {text[:40]}")
        except NeedPrivate:
            pass
    for v in load("descriptor_invalid.json"):
        try:
            scripts(parse(v), 0, "mainnet")
            bad.append(f"invalid accepted {v[:50]}")
        except (DescError, NeedPrivate):
            pass
        except Unsupported:
            pass
    # addresses: BIP173/BIP350/base58 examples
    for addr, script in load("address_vectors.json"):
        try:
            if script_of_address(addr)[0].hex() != script:
                bad.append(f"address decode {addr}")
            nets = script_of_address(addr)[1]
            if address_of(bytes.fromhex(script), nets[0]) not in (addr.lower() if addr.lower().startswith(("bc1", "tb1", "bcrt1")) else addr, None):
                bad.append(f"address encode {addr}")
        except DescError as e:
            bad.append(f"address {addr}: {e}")
    return bad
