"""BIP374 (discrete log equality proofs) transcribed from the BIP's reference.py, over vlib.models.fastec. stdlib only.

Points are affine tuples, None = infinity; scalars ints; proofs 64 bytes e || s; m is None or 32 bytes."""

from __future__ import annotations

import hashlib

from . import fastec as ec

N, P, G0 = ec.N, ec.P, ec.G


def tagged_hash(tag: str, msg: bytes) -> bytes:
    t = hashlib.sha256(tag.encode()).digest()
    return hashlib.sha256(t + t + msg).digest()


def cbytes(Pt) -> bytes:
    return bytes([2 + (Pt[1] & 1)]) + Pt[0].to_bytes(32, "big")


def cpoint(b: bytes):
    if len(b) != 33 or b[0] not in (2, 3):
        return None
    return ec.lift_x(int.from_bytes(b[1:], "big"), b[0] & 1)


def mul(k: int, Pt):
    if Pt is None or k % N == 0:
        return None
    return ec.mul(k % N, Pt)


def add(A, B):
    if A is None:
        return B
    if B is None:
        return A
    return ec.to_affine(ec.jadd((A[0], A[1], 1), (B[0], B[1], 1)))


def neg(A):
    return None if A is None else (A[0], P - A[1])


def dleq_challenge(A, B, C, R1, R2, m, G) -> int:
    if m is not None:
        assert len(m) == 32
    m = b"" if m is None else m
    return int.from_bytes(tagged_hash("BIP0374/challenge", cbytes(A) + cbytes(B) + cbytes(C) + cbytes(G) + cbytes(R1) + cbytes(R2) + m), "big")


def dleq_generate_proof(a: int, B, r: bytes, G=G0, m=None):
    """-> 64-byte proof or None (failure)"""
    assert len(r) == 32
    if not 0 < a < N:
        return None
    if B is None:
        return None
    A = mul(a, G)
    C = mul(a, B)
    t = (a ^ int.from_bytes(tagged_hash("BIP0374/aux", r), "big")).to_bytes(32, "big")
    m_prime = b"" if m is None else m
    rand = tagged_hash("BIP0374/nonce", t + cbytes(A) + cbytes(C) + m_prime)
    k = int.from_bytes(rand, "big") % N
    if k == 0:
        return None
    R1 = mul(k, G)
    R2 = mul(k, B)
    e = dleq_challenge(A, B, C, R1, R2, m, G)
    s = (k + e * a) % N
    proof = e.to_bytes(32, "big") + s.to_bytes(32, "big")
    if not dleq_verify_proof(A, B, C, proof, G, m):
        return None
    return proof


def dleq_verify_proof(A, B, C, proof: bytes, G=G0, m=None) -> bool:
    if A is None or B is None or C is None or G is None:
        return False
    if len(proof) != 64:
        return False
    e = int.from_bytes(proof[:32], "big")
    s = int.from_bytes(proof[32:], "big")
    if s >= N:
        return False
    R1 = add(mul(s, G), neg(mul(e, A)))
    if R1 is None:
        return False
    R2 = add(mul(s, B), neg(mul(e, C)))
    if R2 is None:
        return False
    return e == dleq_challenge(A, B, C, R1, R2, m, G)


def validate(gen_rows, ver_rows) -> list[str]:
    """rows: csv.DictReader rows of test_vectors_generate_proof.csv / test_vectors_verify_proof.csv"""
    bad = []
    H = bytes.fromhex
    for row in gen_rows:
        B = None if row["point_B"] == "INFINITY" else cpoint(H(row["point_B"]))
        m = H(row["message"]) if row["message"] else None
        got = dleq_generate_proof(int(row["scalar_a"], 16), B, H(row["auxrand_r"]), cpoint(H(row["point_G"])), m)
        want = None if row["result_proof"] == "INVALID" else H(row["result_proof"])
        if got != want:
            bad.append(f"generate {row['index']}")
    for row in ver_rows:
        m = H(row["message"]) if row["message"] else None
        got = dleq_verify_proof(cpoint(H(row["point_A"])), cpoint(H(row["point_B"])), cpoint(H(row["point_C"])), H(row["proof"]), cpoint(H(row["point_G"])), m)
        if got != (row["result_success"] == "TRUE"):
            bad.append(f"verify {row['index']}")
    return bad
