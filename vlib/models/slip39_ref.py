"""SLIP-0039 (Shamir's secret sharing for mnemonic codes) transcribed from slip-0039.md. stdlib only; never imports btclib.

Share (bits):  id 15 | ext 1 | e 4 | GI 4 | Gt-1 4 | g-1 4 | I 4 | t-1 4 | padded share value | RS1024 checksum 30
  * 10 bits per word, 1024-word list; the share value is left-padded with zeros to a multiple of 10 bits,
    at most 8 padding bits, all of them zero; at least 20 words.
  * checksum: RS1024 over GF(1024) with customization string "shamir" (ext=0) / "shamir_extendable" (ext=1).
Secret sharing: GF(256) = GF(2)[x]/(x^8+x^4+x^3+x+1), byte-wise; secret at x=255, digest share at x=254,
  digest = HMAC-SHA256(key=R, msg=S)[:4] || R.  threshold 1: every share is the secret itself.
Encryption: 4-round Feistel, F(i, R) = PBKDF2-HMAC-SHA256(password = byte(i) || passphrase, salt = prefix || R, 2500 << e, n/2 bytes),
  prefix = "shamir" || id (2 bytes big endian) when ext=0, empty when ext=1.
Field arithmetic here is bit-by-bit (no log/exp tables) on purpose: it shares nothing with a table implementation.
"""

from __future__ import annotations

import hashlib
import hmac

from . import bip39_ref

RADIX_BITS = 10
ID_BITS = 15
CHECKSUM_WORDS = 3
MIN_WORDS = 20
SECRET_X = 255
DIGEST_X = 254
DIGEST_LEN = 4
_words: list[str] = []
_index: dict[str, int] = {}


class RefError(Exception):
    """The model refuses (invalid share or share set)."""


def wordlist() -> list[str]:
    if not _words:
        _words.extend(bip39_ref.read_wordfile("wordlist.txt"))
        if len(_words) != 1024 or len(set(_words)) != 1024:
            raise ValueError("slip39 list")
        _index.update({w: i for i, w in enumerate(_words)})
    return _words


# ---------------------------------------------------------------- RS1024
GEN = (0xE0E040, 0x1C1C080, 0x3838100, 0x7070200, 0xE0E0009, 0x1C0C2412, 0x38086C24, 0x3090FC48, 0x21B1F890, 0x3F3F120)


def rs1024_polymod(values) -> int:
    chk = 1
    for v in values:
        b = chk >> 20
        chk = (chk & 0xFFFFF) << 10 ^ v
        for i in range(10):
            chk ^= GEN[i] if ((b >> i) & 1) else 0
    return chk


def cs_string(ext: bool) -> list[int]:
    return list(b"shamir_extendable" if ext else b"shamir")


def rs1024_create(data: list[int], ext: bool) -> list[int]:
    values = cs_string(ext) + list(data) + [0, 0, 0]
    polymod = rs1024_polymod(values) ^ 1
    return [(polymod >> 10 * i) & 1023 for i in reversed(range(3))]


def rs1024_verify(data: list[int], ext: bool) -> bool:
    return rs1024_polymod(cs_string(ext) + list(data)) == 1


# ---------------------------------------------------------------- GF(256), bit by bit
def gf_mul(a: int, b: int) -> int:
    r = 0
    while b:
        if b & 1:
            r ^= a
        a <<= 1
        if a & 0x100:
            a ^= 0x11B
        b >>= 1
    return r


def gf_pow(a: int, e: int) -> int:
    r = 1
    while e:
        if e & 1:
            r = gf_mul(r, a)
        a = gf_mul(a, a)
        e >>= 1
    return r


def gf_inv(a: int) -> int:
    if a == 0:
        raise ZeroDivisionError
    return gf_pow(a, 254)


def interpolate(points: list[tuple[int, bytes]], x: int) -> bytes:
    """f(x) for the polynomial of degree < len(points) through the points, byte-wise (Lagrange)."""
    xs = [p[0] for p in points]
    if len(set(xs)) != len(xs):
        raise RefError("repeated x")
    for xi, yi in points:
        if xi == x:
            return yi
    n = len(points[0][1])
    out = bytearray(n)
    for xi, yi in points:
        num, den = 1, 1
        for xj in xs:
            if xj != xi:
                num = gf_mul(num, x ^ xj)
                den = gf_mul(den, xi ^ xj)
        li = gf_mul(num, gf_inv(den))
        for k in range(n):
            out[k] ^= gf_mul(yi[k], li)
    return bytes(out)


def digest(random_part: bytes, secret: bytes) -> bytes:
    return hmac.new(random_part, secret, hashlib.sha256).digest()[:DIGEST_LEN]


def recover_secret(threshold: int, shares: list[tuple[int, bytes]]) -> bytes:
    if threshold == 1:
        return shares[0][1]
    secret = interpolate(shares, SECRET_X)
    d = interpolate(shares, DIGEST_X)
    if d[:DIGEST_LEN] != digest(d[DIGEST_LEN:], secret):
        raise RefError("invalid digest of the shared secret")
    return secret


def split_secret(threshold: int, xs: list[int], secret: bytes, rnd) -> list[tuple[int, bytes]]:
    """Shares at the x coordinates `xs` (distinct, each 0..15); rnd(n) gives n random bytes."""
    if not 1 <= threshold <= len(xs) or len(set(xs)) != len(xs):
        raise RefError("threshold/count")
    if threshold == 1:
        return [(x, secret) for x in xs]
    n = len(secret)
    base = [(x, rnd(n)) for x in xs[: threshold - 2]]
    r = rnd(n - DIGEST_LEN)
    base += [(DIGEST_X, digest(r, secret) + r), (SECRET_X, secret)]
    return [(x, interpolate(base, x)) for x in xs]


# ---------------------------------------------------------------- Feistel
def _round(i: int, passphrase: bytes, e: int, salt: bytes, r: bytes) -> bytes:
    return hashlib.pbkdf2_hmac("sha256", bytes([i]) + passphrase, salt + r, 2500 << e, len(r))


def _salt(identifier: int, ext: bool) -> bytes:
    return b"" if ext else b"shamir" + identifier.to_bytes(2, "big")


def _xor(a: bytes, b: bytes) -> bytes:
    return bytes(x ^ y for x, y in zip(a, b))


def encrypt(ms: bytes, passphrase: str, e: int, identifier: int, ext: bool) -> bytes:
    if len(ms) % 2:
        raise RefError("odd length")
    l, r = ms[: len(ms) // 2], ms[len(ms) // 2 :]
    for i in range(4):
        l, r = r, _xor(l, _round(i, passphrase.encode(), e, _salt(identifier, ext), r))
    return r + l


def decrypt(ems: bytes, passphrase: str, e: int, identifier: int, ext: bool) -> bytes:
    if len(ems) % 2:
        raise RefError("odd length")
    l, r = ems[: len(ems) // 2], ems[len(ems) // 2 :]
    for i in reversed(range(4)):
        l, r = r, _xor(l, _round(i, passphrase.encode(), e, _salt(identifier, ext), r))
    return r + l


# ---------------------------------------------------------------- share codec
FIELDS = ("id", "ext", "e", "GI", "GT", "G", "MI", "MT")


def encode_share(sh: dict, pad_bits_value: int = 0, fix_checksum: bool = True) -> str:
    """dict(id, ext, e, GI, GT, G, MI, MT, value) -> mnemonic. GT, G, MT are true values (1..16).
    pad_bits_value: what to write in the padding bits (0 in a valid share)."""
    wl = wordlist()
    value = sh["value"]
    vbits = 8 * len(value)
    nwords_value = -(-vbits // 10)
    pad = nwords_value * 10 - vbits
    head = (sh["id"] << 1 | int(sh["ext"])) << 4 | sh["e"]
    for f in (sh["GI"], sh["GT"] - 1, sh["G"] - 1, sh["MI"], sh["MT"] - 1):
        head = head << 4 | f
    body = (pad_bits_value & ((1 << pad) - 1)) << vbits | int.from_bytes(value, "big")
    total = head << (nwords_value * 10) | body
    nw = 4 + nwords_value
    data = [(total >> 10 * (nw - 1 - i)) & 1023 for i in range(nw)]
    cs = rs1024_create(data, sh["ext"]) if fix_checksum else [0, 0, 0]
    return " ".join(wl[i] for i in data + cs)


def decode_share(mnemonic: str) -> dict:
    wordlist()
    words = mnemonic.split()
    if len(words) < MIN_WORDS:
        raise RefError("too short")
    try:
        data = [_index[w] for w in words]
    except KeyError as ex:
        raise RefError(f"unknown word {ex}") from None
    padding_len = (10 * (len(data) - 7)) % 16
    if padding_len > 8:
        raise RefError("invalid length")
    head = 0
    for d in data[:4]:
        head = head << 10 | d
    ext = bool((head >> 24) & 1)
    if not rs1024_verify(data, ext):
        raise RefError("invalid checksum")
    sh = {
        "id": head >> 25, "ext": ext, "e": (head >> 20) & 15, "GI": (head >> 16) & 15, "GT": ((head >> 12) & 15) + 1,
        "G": ((head >> 8) & 15) + 1, "MI": (head >> 4) & 15, "MT": (head & 15) + 1,
    }
    if sh["GT"] > sh["G"]:
        raise RefError("group threshold above group count")
    vwords = data[4:-3]
    v = 0
    for d in vwords:
        v = v << 10 | d
    vbits = 10 * len(vwords) - padding_len
    if v >> vbits:
        raise RefError("non-zero padding")
    sh["value"] = v.to_bytes(vbits // 8, "big")
    if len(sh["value"]) < 16 or len(sh["value"]) % 2:
        raise RefError("share value length")
    return sh


# ---------------------------------------------------------------- recovery
def recover_ems(mnemonics: list[str]):
    """-> (ems, common fields). The share set must be exactly GT groups with exactly MT members each (SLIP-0039 / reference implementation)."""
    if not mnemonics:
        raise RefError("empty")
    shares = [decode_share(m) for m in mnemonics]
    first = shares[0]
    for f in ("id", "ext", "e", "GT", "G"):
        if len({s[f] for s in shares}) != 1:
            raise RefError(f"mismatching {f}")
    if len({len(s["value"]) for s in shares}) != 1:
        raise RefError("mismatching lengths")
    groups: dict[int, list[dict]] = {}
    for s in shares:
        groups.setdefault(s["GI"], []).append(s)
    if len(groups) != first["GT"]:
        raise RefError("wrong number of groups")
    gshares = []
    for gi, members in groups.items():
        if len({m["MT"] for m in members}) != 1:
            raise RefError("mismatching member thresholds")
        mt = members[0]["MT"]
        if len({m["MI"] for m in members}) != len(members):
            raise RefError("repeated member index")
        if len(members) != mt:
            raise RefError("wrong number of members")
        gshares.append((gi, recover_secret(mt, [(m["MI"], m["value"]) for m in members])))
    return recover_secret(first["GT"], gshares), first


def recover(mnemonics: list[str], passphrase: str = "") -> bytes:
    if any(not 32 <= ord(c) <= 126 for c in passphrase):
        raise RefError("passphrase")
    ems, f = recover_ems(mnemonics)
    return decrypt(ems, passphrase, f["e"], f["id"], f["ext"])


def generate(secret: bytes, passphrase: str, e: int, identifier: int, ext: bool, group_threshold: int, groups: list[dict], rnd, group_count: int | None = None) -> list[list[str]]:
    """groups: [{"GI": group index, "MT": member threshold, "MIs": [member indexes]}]; any distinct indexes 0..15.
    Returns one list of mnemonics per group, in the order given."""
    if len(secret) < 16 or len(secret) % 2:
        raise RefError("secret length")
    ems = encrypt(secret, passphrase, e, identifier, ext)
    gshares = split_secret(group_threshold, [g["GI"] for g in groups], ems, rnd)
    out = []
    for (gi, gval), g in zip(gshares, groups):
        ms = split_secret(g["MT"], g["MIs"], gval, rnd)
        out.append([
            encode_share({"id": identifier, "ext": ext, "e": e, "GI": gi, "GT": group_threshold, "G": group_count or len(groups), "MI": mi, "MT": g["MT"], "value": val})
            for mi, val in ms
        ])
    return out
