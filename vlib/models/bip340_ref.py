"""BIP340 reference implementation (transcribed from the BIP's reference.py), secp256k1 only. stdlib only."""

from __future__ import annotations

import hashlib

p = 0xFFFFFFFFFFFFFFFFFFFFFFFFFFFFFFFFFFFFFFFFFFFFFFFFFFFFFFFEFFFFFC2F
n = 0xFFFFFFFFFFFFFFFFFFFFFFFFFFFFFFFEBAAEDCE6AF48A03BBFD25E8CD0364141
G = (
    0x79BE667EF9DCBBAC55A06295CE870B07029BFCDB2DCE28D959F2815B16F81798,
    0x483ADA7726A3C4655DA4FBFC0E1108A8FD17B448A68554199C47D08FFB10D4B8,
)


def tagged_hash(tag: str, msg: bytes) -> bytes:
    tag_hash = hashlib.sha256(tag.encode()).digest()
    return hashlib.sha256(tag_hash + tag_hash + msg).digest()


def point_add(P1, P2):
    if P1 is None:
        return P2
    if P2 is None:
        return P1
    if (P1[0] == P2[0]) and (P1[1] != P2[1]):
        return None
    if P1 == P2:
        lam = (3 * P1[0] * P1[0] * pow(2 * P1[1], p - 2, p)) % p
    else:
        lam = ((P2[1] - P1[1]) * pow(P2[0] - P1[0], p - 2, p)) % p
    x3 = (lam * lam - P1[0] - P2[0]) % p
    return (x3, (lam * (P1[0] - x3) - P1[1]) % p)


def point_mul(P, k):
    R = None
    for i in range(256):
        if (k >> i) & 1:
            R = point_add(R, P)
        P = point_add(P, P)
    return R


def bytes_from_int(x: int) -> bytes:
    return x.to_bytes(32, byteorder="big")


def lift_x(x: int):
    if x >= p:
        return None
    y_sq = (pow(x, 3, p) + 7) % p
    y = pow(y_sq, (p + 1) // 4, p)
    if pow(y, 2, p) != y_sq:
        return None
    return (x, y if y & 1 == 0 else p - y)


def int_from_bytes(b: bytes) -> int:
    return int.from_bytes(b, byteorder="big")


def has_even_y(P) -> bool:
    return P[1] % 2 == 0


def pubkey_gen(seckey: bytes) -> bytes:
    d0 = int_from_bytes(seckey)
    if not (1 <= d0 <= n - 1):
        raise ValueError("The secret key must be an integer in the range 1..n-1.")
    P = point_mul(G, d0)
    return bytes_from_int(P[0])


def schnorr_sign(msg: bytes, seckey: bytes, aux_rand: bytes) -> bytes:
    d0 = int_from_bytes(seckey)
    if not (1 <= d0 <= n - 1):
        raise ValueError("The secret key must be an integer in the range 1..n-1.")
    if len(aux_rand) != 32:
        raise ValueError("aux_rand must be 32 bytes instead of %i." % len(aux_rand))
    P = point_mul(G, d0)
    d = d0 if has_even_y(P) else n - d0
    t = bytes(a ^ b for a, b in zip(bytes_from_int(d), tagged_hash("BIP0340/aux", aux_rand)))
    k0 = int_from_bytes(tagged_hash("BIP0340/nonce", t + bytes_from_int(P[0]) + msg)) % n
    if k0 == 0:
        raise RuntimeError("Failure. This happens only with negligible probability.")
    R = point_mul(G, k0)
    k = n - k0 if not has_even_y(R) else k0
    e = int_from_bytes(tagged_hash("BIP0340/challenge", bytes_from_int(R[0]) + bytes_from_int(P[0]) + msg)) % n
    sig = bytes_from_int(R[0]) + bytes_from_int((k + e * d) % n)
    return sig


def schnorr_verify(msg: bytes, pubkey: bytes, sig: bytes) -> bool:
    if len(pubkey) != 32:
        raise ValueError("The public key must be a 32-byte array.")
    if len(sig) != 64:
        raise ValueError("The signature must be a 64-byte array.")
    P = lift_x(int_from_bytes(pubkey))
    r = int_from_bytes(sig[0:32])
    s = int_from_bytes(sig[32:64])
    if (P is None) or (r >= p) or (s >= n):
        return False
    e = int_from_bytes(tagged_hash("BIP0340/challenge", sig[0:32] + pubkey + msg)) % n
    R = point_add(point_mul(G, s), point_mul(P, n - e))
    if (R is None) or (not has_even_y(R)) or (R[0] != r):
        return False
    return True
