"""Transcription of Bitcoin Core's script interpreter (src/script/interpreter.cpp, v26-v28 behaviour):
EvalScript, VerifyScript, VerifyWitnessProgram, ExecuteWitnessScript, signature/pubkey encoding checks,
FindAndDelete, CScriptNum, lax DER parsing, BIP143/BIP341 checkers.  Returns Core's ScriptError *name*
("OK" on success).  No btclib import: stdlib + sibling models only.

A spend is described by: tx (dict model of tx_ref), input index, list of spent outputs [{"value","spk"}], flags (set of names).
"""

from __future__ import annotations

import hashlib

from . import fastec
from . import sighash_ref as sh
from .tx_ref import ser_string, sha256

MAX_SCRIPT_ELEMENT_SIZE = 520
MAX_OPS_PER_SCRIPT = 201
MAX_PUBKEYS_PER_MULTISIG = 20
MAX_SCRIPT_SIZE = 10000
MAX_STACK_SIZE = 1000
LOCKTIME_THRESHOLD = 500000000
SEQUENCE_LOCKTIME_DISABLE_FLAG = 1 << 31
SEQUENCE_LOCKTIME_TYPE_FLAG = 1 << 22
SEQUENCE_LOCKTIME_MASK = 0x0000FFFF
SEQUENCE_FINAL = 0xFFFFFFFF
ANNEX_TAG = 0x50
VALIDATION_WEIGHT_OFFSET = 50
VALIDATION_WEIGHT_PER_SIGOP_PASSED = 50

ALL_FLAG_NAMES = [
    "P2SH", "STRICTENC", "DERSIG", "LOW_S", "NULLDUMMY", "SIGPUSHONLY", "MINIMALDATA", "DISCOURAGE_UPGRADABLE_NOPS", "CLEANSTACK",
    "CHECKLOCKTIMEVERIFY", "CHECKSEQUENCEVERIFY", "WITNESS", "DISCOURAGE_UPGRADABLE_WITNESS_PROGRAM", "MINIMALIF", "NULLFAIL",
    "WITNESS_PUBKEYTYPE", "CONST_SCRIPTCODE", "TAPROOT", "DISCOURAGE_UPGRADABLE_TAPROOT_VERSION", "DISCOURAGE_OP_SUCCESS",
    "DISCOURAGE_UPGRADABLE_PUBKEYTYPE",
]  # fmt: skip

OP = {
    "OP_0": 0x00, "OP_PUSHDATA1": 0x4C, "OP_PUSHDATA2": 0x4D, "OP_PUSHDATA4": 0x4E, "OP_1NEGATE": 0x4F, "OP_RESERVED": 0x50,
    "OP_1": 0x51, "OP_2": 0x52, "OP_3": 0x53, "OP_4": 0x54, "OP_5": 0x55, "OP_6": 0x56, "OP_7": 0x57, "OP_8": 0x58, "OP_9": 0x59,
    "OP_10": 0x5A, "OP_11": 0x5B, "OP_12": 0x5C, "OP_13": 0x5D, "OP_14": 0x5E, "OP_15": 0x5F, "OP_16": 0x60,
    "OP_NOP": 0x61, "OP_VER": 0x62, "OP_IF": 0x63, "OP_NOTIF": 0x64, "OP_VERIF": 0x65, "OP_VERNOTIF": 0x66, "OP_ELSE": 0x67,
    "OP_ENDIF": 0x68, "OP_VERIFY": 0x69, "OP_RETURN": 0x6A, "OP_TOALTSTACK": 0x6B, "OP_FROMALTSTACK": 0x6C, "OP_2DROP": 0x6D,
    "OP_2DUP": 0x6E, "OP_3DUP": 0x6F, "OP_2OVER": 0x70, "OP_2ROT": 0x71, "OP_2SWAP": 0x72, "OP_IFDUP": 0x73, "OP_DEPTH": 0x74,
    "OP_DROP": 0x75, "OP_DUP": 0x76, "OP_NIP": 0x77, "OP_OVER": 0x78, "OP_PICK": 0x79, "OP_ROLL": 0x7A, "OP_ROT": 0x7B,
    "OP_SWAP": 0x7C, "OP_TUCK": 0x7D, "OP_CAT": 0x7E, "OP_SUBSTR": 0x7F, "OP_LEFT": 0x80, "OP_RIGHT": 0x81, "OP_SIZE": 0x82,
    "OP_INVERT": 0x83, "OP_AND": 0x84, "OP_OR": 0x85, "OP_XOR": 0x86, "OP_EQUAL": 0x87, "OP_EQUALVERIFY": 0x88,
    "OP_RESERVED1": 0x89, "OP_RESERVED2": 0x8A, "OP_1ADD": 0x8B, "OP_1SUB": 0x8C, "OP_2MUL": 0x8D, "OP_2DIV": 0x8E,
    "OP_NEGATE": 0x8F, "OP_ABS": 0x90, "OP_NOT": 0x91, "OP_0NOTEQUAL": 0x92, "OP_ADD": 0x93, "OP_SUB": 0x94, "OP_MUL": 0x95,
    "OP_DIV": 0x96, "OP_MOD": 0x97, "OP_LSHIFT": 0x98, "OP_RSHIFT": 0x99, "OP_BOOLAND": 0x9A, "OP_BOOLOR": 0x9B,
    "OP_NUMEQUAL": 0x9C, "OP_NUMEQUALVERIFY": 0x9D, "OP_NUMNOTEQUAL": 0x9E, "OP_LESSTHAN": 0x9F, "OP_GREATERTHAN": 0xA0,
    "OP_LESSTHANOREQUAL": 0xA1, "OP_GREATERTHANOREQUAL": 0xA2, "OP_MIN": 0xA3, "OP_MAX": 0xA4, "OP_WITHIN": 0xA5,
    "OP_RIPEMD160": 0xA6, "OP_SHA1": 0xA7, "OP_SHA256": 0xA8, "OP_HASH160": 0xA9, "OP_HASH256": 0xAA, "OP_CODESEPARATOR": 0xAB,
    "OP_CHECKSIG": 0xAC, "OP_CHECKSIGVERIFY": 0xAD, "OP_CHECKMULTISIG": 0xAE, "OP_CHECKMULTISIGVERIFY": 0xAF,
    "OP_NOP1": 0xB0, "OP_CHECKLOCKTIMEVERIFY": 0xB1, "OP_CHECKSEQUENCEVERIFY": 0xB2, "OP_NOP4": 0xB3, "OP_NOP5": 0xB4,
    "OP_NOP6": 0xB5, "OP_NOP7": 0xB6, "OP_NOP8": 0xB7, "OP_NOP9": 0xB8, "OP_NOP10": 0xB9, "OP_CHECKSIGADD": 0xBA,
    "OP_INVALIDOPCODE": 0xFF,
}  # fmt: skip
OP["OP_FALSE"] = 0x00
OP["OP_TRUE"] = 0x51
OP["OP_NOP2"] = 0xB1
OP["OP_NOP3"] = 0xB2
DISABLED = {OP[n] for n in ("OP_CAT", "OP_SUBSTR", "OP_LEFT", "OP_RIGHT", "OP_INVERT", "OP_AND", "OP_OR", "OP_XOR", "OP_2MUL", "OP_2DIV", "OP_MUL", "OP_DIV", "OP_MOD", "OP_LSHIFT", "OP_RSHIFT")}


class ScriptErr(Exception):
    def __init__(self, code: str) -> None:
        super().__init__(code)
        self.code = code


class ScriptNumError(Exception):
    pass


# ------------------------------------------------------------------ primitives
def get_op(script: bytes, pc: int):
    """CScript::GetOp -> (ok, new_pc, opcode, pushdata)"""
    n = len(script)
    if pc >= n:
        return False, pc, 0xFF, b""
    op = script[pc]
    pc += 1
    data = b""
    if op <= 0x4E:
        if op < 0x4C:
            size = op
        elif op == 0x4C:
            if n - pc < 1:
                return False, pc, 0xFF, b""
            size = script[pc]
            pc += 1
        elif op == 0x4D:
            if n - pc < 2:
                return False, pc, 0xFF, b""
            size = int.from_bytes(script[pc : pc + 2], "little")
            pc += 2
        else:
            if n - pc < 4:
                return False, pc, 0xFF, b""
            size = int.from_bytes(script[pc : pc + 4], "little")
            pc += 4
        if n - pc < size:
            return False, pc, 0xFF, b""
        data = script[pc : pc + size]
        pc += size
    return True, pc, op, data


def num_encode(v: int) -> bytes:
    if v == 0:
        return b""
    neg = v < 0
    a = abs(v)
    out = bytearray()
    while a:
        out.append(a & 0xFF)
        a >>= 8
    if out[-1] & 0x80:
        out.append(0x80 if neg else 0)
    elif neg:
        out[-1] |= 0x80
    return bytes(out)


def num_decode(vch: bytes, require_minimal: bool, max_size: int = 4) -> int:
    if len(vch) > max_size:
        raise ScriptNumError("script number overflow")
    if require_minimal and len(vch) > 0:
        if (vch[-1] & 0x7F) == 0:
            if len(vch) <= 1 or (vch[-2] & 0x80) == 0:
                raise ScriptNumError("non-minimally encoded script number")
    if not vch:
        return 0
    v = int.from_bytes(vch, "little")
    if vch[-1] & 0x80:
        return -(v & ~(0x80 << (8 * (len(vch) - 1))))
    return v


def cast_to_bool(vch: bytes) -> bool:
    for i, b in enumerate(vch):
        if b != 0:
            if i == len(vch) - 1 and b == 0x80:
                return False
            return True
    return False


def push_data(data: bytes) -> bytes:
    """CScript() << vector"""
    n = len(data)
    if n < 0x4C:
        return bytes([n]) + data
    if n <= 0xFF:
        return b"\x4c" + bytes([n]) + data
    if n <= 0xFFFF:
        return b"\x4d" + n.to_bytes(2, "little") + data
    return b"\x4e" + n.to_bytes(4, "little") + data


def check_minimal_push(data: bytes, opcode: int) -> bool:
    if len(data) == 0:
        return opcode == 0x00
    if len(data) == 1 and 1 <= data[0] <= 16:
        return False  # should have used OP_1 .. OP_16
    if len(data) == 1 and data[0] == 0x81:
        return False  # OP_1NEGATE
    if len(data) <= 75:
        return opcode == len(data)
    if len(data) <= 255:
        return opcode == 0x4C
    if len(data) <= 65535:
        return opcode == 0x4D
    return True


def find_and_delete(script: bytes, b: bytes):
    """Core's FindAndDelete -> (new script, count)"""
    found = 0
    if not b:
        return script, 0
    result = b""
    pc = pc2 = 0
    end = len(script)
    while True:
        result += script[pc2:pc]
        while end - pc >= len(b) and script[pc : pc + len(b)] == b:
            pc += len(b)
            found += 1
        pc2 = pc
        ok, npc, _, _ = get_op(script, pc)
        pc = npc
        if not ok:
            break
    if found > 0:
        result += script[pc2:end]
        return result, found
    return script, 0


def is_push_only(script: bytes) -> bool:
    pc = 0
    while pc < len(script):
        ok, pc, op, _ = get_op(script, pc)
        if not ok:
            return False
        if op > 0x60:
            return False
    return True


def is_witness_program(script: bytes):
    if len(script) < 4 or len(script) > 42:
        return None
    if script[0] != 0 and not (0x51 <= script[0] <= 0x60):
        return None
    if script[1] + 2 == len(script):
        return (0 if script[0] == 0 else script[0] - 0x50), script[2:]
    return None


def is_p2sh(script: bytes) -> bool:
    return len(script) == 23 and script[0] == 0xA9 and script[1] == 0x14 and script[22] == 0x87


def is_op_success(op: int) -> bool:
    return op == 80 or op == 98 or 126 <= op <= 129 or 131 <= op <= 134 or 137 <= op <= 138 or 141 <= op <= 142 or 149 <= op <= 153 or 187 <= op <= 254


# ------------------------------------------------------------------ signature / key encodings
def is_valid_signature_encoding(sig: bytes) -> bool:
    """BIP66, with the sighash byte"""
    if len(sig) < 9 or len(sig) > 73:
        return False
    if sig[0] != 0x30:
        return False
    if sig[1] != len(sig) - 3:
        return False
    len_r = sig[3]
    if 5 + len_r >= len(sig):
        return False
    len_s = sig[5 + len_r]
    if len_r + len_s + 7 != len(sig):
        return False
    if sig[2] != 0x02:
        return False
    if len_r == 0:
        return False
    if sig[4] & 0x80:
        return False
    if len_r > 1 and sig[4] == 0x00 and not (sig[5] & 0x80):
        return False
    if sig[len_r + 4] != 0x02:
        return False
    if len_s == 0:
        return False
    if sig[len_r + 6] & 0x80:
        return False
    if len_s > 1 and sig[len_r + 6] == 0x00 and not (sig[len_r + 7] & 0x80):
        return False
    return True


def parse_der_lax(inp: bytes):
    """secp256k1 contrib ecdsa_signature_parse_der_lax -> (r, s) or None (parse failure); overflow -> (0, 0)"""
    n = len(inp)
    pos = 0
    if pos == n or inp[pos] != 0x30:
        return None
    pos += 1
    if pos == n:
        return None
    lenbyte = inp[pos]
    pos += 1
    if lenbyte & 0x80:
        lenbyte -= 0x80
        if lenbyte > n - pos:
            return None
        pos += lenbyte

    def read_int(pos):
        if pos == n or inp[pos] != 0x02:
            return None
        pos += 1
        if pos == n:
            return None
        lb = inp[pos]
        pos += 1
        if lb & 0x80:
            lb -= 0x80
            if lb > n - pos:
                return None
            while lb > 0 and inp[pos] == 0:
                pos += 1
                lb -= 1
            if lb >= 4:
                return None
            ln = 0
            while lb > 0:
                ln = (ln << 8) + inp[pos]
                pos += 1
                lb -= 1
        else:
            ln = lb
        if ln > n - pos:
            return None
        return pos, ln

    r_ = read_int(pos)
    if r_ is None:
        return None
    rpos, rlen = r_
    pos = rpos + rlen
    s_ = read_int(pos)
    if s_ is None:
        return None
    spos, slen = s_
    while rlen > 0 and inp[rpos] == 0:
        rlen -= 1
        rpos += 1
    overflow = rlen > 32
    r = int.from_bytes(inp[rpos : rpos + rlen], "big") if not overflow else 0
    while slen > 0 and inp[spos] == 0:
        slen -= 1
        spos += 1
    if slen > 32:
        overflow = True
    s = int.from_bytes(inp[spos : spos + slen], "big") if not overflow else 0
    if not overflow and (r >= fastec.N or s >= fastec.N):
        overflow = True
    if overflow:
        return 0, 0
    return r, s


def is_low_der_signature(sig: bytes) -> str | None:
    if not is_valid_signature_encoding(sig):
        return "SIG_DER"
    rs = parse_der_lax(sig[:-1])
    if rs is None:
        return "SIG_HIGH_S"  # CheckLowS returns false when the lax parse fails
    if rs[1] > fastec.N // 2:
        return "SIG_HIGH_S"
    return None


def check_signature_encoding(sig: bytes, flags) -> None:
    if len(sig) == 0:
        return
    if ("DERSIG" in flags or "LOW_S" in flags or "STRICTENC" in flags) and not is_valid_signature_encoding(sig):
        raise ScriptErr("SIG_DER")
    if "LOW_S" in flags:
        e = is_low_der_signature(sig)
        if e:
            raise ScriptErr(e)
    if "STRICTENC" in flags:
        ht = sig[-1] & ~0x80
        if ht < 1 or ht > 3:
            raise ScriptErr("SIG_HASHTYPE")


def check_pubkey_encoding(pk: bytes, flags, sigversion: str) -> None:
    if "STRICTENC" in flags:
        ok = len(pk) >= 33 and ((pk[0] == 4 and len(pk) == 65) or (pk[0] in (2, 3) and len(pk) == 33))
        if not ok:
            raise ScriptErr("PUBKEYTYPE")
    if "WITNESS_PUBKEYTYPE" in flags and sigversion == "WITNESS_V0":
        if not (len(pk) == 33 and pk[0] in (2, 3)):
            raise ScriptErr("WITNESS_PUBKEYTYPE")


# ------------------------------------------------------------------ checker
class Checker:
    def __init__(self, tx: dict, idx: int, spent: list[dict]) -> None:
        self.tx = tx
        self.idx = idx
        self.spent = spent
        self.amount = spent[idx]["value"]
        self.sig_checks = 0

    def check_ecdsa(self, sig: bytes, pubkey: bytes, script_code: bytes, sigversion: str) -> bool:
        # CPubKey::IsValid: the length implied by the first byte must be the length
        if not pubkey:
            return False
        want_len = 33 if pubkey[0] in (2, 3) else 65 if pubkey[0] in (4, 6, 7) else 0
        if want_len == 0 or len(pubkey) != want_len:
            return False
        if not sig:
            return False
        hashtype = sig[-1]
        sig = sig[:-1]
        if sigversion == "WITNESS_V0":
            digest = sh.segwit_v0(script_code, self.tx, self.idx, hashtype, self.amount)
        else:
            digest = sh.legacy(script_code, self.tx, self.idx, hashtype)
        self.sig_checks += 1
        Q = fastec.parse_pubkey(pubkey)
        if Q is None:
            return False
        rs = parse_der_lax(sig)
        if rs is None:
            return False
        r, s = rs
        if s > fastec.N // 2:
            s = fastec.N - s  # secp256k1_ecdsa_signature_normalize
        return fastec.ecdsa_verify(digest, Q, r, s)

    def check_schnorr(self, sig: bytes, pubkey32: bytes, sigversion: str, execdata: dict) -> None:
        """raises ScriptErr on failure"""
        if len(sig) not in (64, 65):
            raise ScriptErr("SCHNORR_SIG_SIZE")
        hashtype = 0
        if len(sig) == 65:
            hashtype = sig[-1]
            sig = sig[:-1]
            if hashtype == 0:
                raise ScriptErr("SCHNORR_SIG_HASHTYPE")
        digest = sh.taproot(
            self.tx, self.idx, self.spent, hashtype,
            annex=execdata.get("annex"), scriptpath=(sigversion == "TAPSCRIPT"),
            leaf_hash=execdata.get("tapleaf_hash", b""), codeseparator_pos=execdata.get("codeseparator_pos", 0xFFFFFFFF),
        )  # fmt: skip
        if digest is None:
            raise ScriptErr("SCHNORR_SIG_HASHTYPE")
        self.sig_checks += 1
        if not fastec.schnorr_verify(digest, pubkey32, sig):
            raise ScriptErr("SCHNORR_SIG")

    def check_lock_time(self, n: int) -> bool:
        tx_lock = self.tx["lock_time"]
        if not ((tx_lock < LOCKTIME_THRESHOLD and n < LOCKTIME_THRESHOLD) or (tx_lock >= LOCKTIME_THRESHOLD and n >= LOCKTIME_THRESHOLD)):
            return False
        if n > tx_lock:
            return False
        if self.tx["vin"][self.idx]["sequence"] == SEQUENCE_FINAL:
            return False
        return True

    def check_sequence(self, n: int) -> bool:
        tx_seq = self.tx["vin"][self.idx]["sequence"]
        version = self.tx["version"]
        # Core: static_cast<uint32_t>(txTo->nVersion) < 2 (v26: nVersion is int32, compared as unsigned)
        if (version & 0xFFFFFFFF) < 2:
            return False
        if tx_seq & SEQUENCE_LOCKTIME_DISABLE_FLAG:
            return False
        mask = SEQUENCE_LOCKTIME_TYPE_FLAG | SEQUENCE_LOCKTIME_MASK
        a = tx_seq & mask
        b = n & mask
        if not ((a < SEQUENCE_LOCKTIME_TYPE_FLAG and b < SEQUENCE_LOCKTIME_TYPE_FLAG) or (a >= SEQUENCE_LOCKTIME_TYPE_FLAG and b >= SEQUENCE_LOCKTIME_TYPE_FLAG)):
            return False
        if b > a:
            return False
        return True


# ------------------------------------------------------------------ EvalScript
def _eval_checksig(sig, pubkey, script, pbegincodehash, execdata, flags, checker, sigversion) -> bool:
    if sigversion in ("BASE", "WITNESS_V0"):
        script_code = script[pbegincodehash:]
        if sigversion == "BASE":
            script_code, found = find_and_delete(script_code, push_data(sig))
            if found > 0 and "CONST_SCRIPTCODE" in flags:
                raise ScriptErr("SIG_FINDANDDELETE")
        check_signature_encoding(sig, flags)
        check_pubkey_encoding(pubkey, flags, sigversion)
        success = checker.check_ecdsa(sig, pubkey, script_code, sigversion)
        if not success and "NULLFAIL" in flags and len(sig):
            raise ScriptErr("NULLFAIL")
        return success
    # TAPSCRIPT
    success = len(sig) > 0
    if success:
        execdata["validation_weight_left"] -= VALIDATION_WEIGHT_PER_SIGOP_PASSED
        if execdata["validation_weight_left"] < 0:
            raise ScriptErr("TAPSCRIPT_VALIDATION_WEIGHT")
    if len(pubkey) == 0:
        raise ScriptErr("TAPSCRIPT_EMPTY_PUBKEY")  # older Core reported PUBKEYTYPE here
    if len(pubkey) == 32:
        if success:
            checker.check_schnorr(sig, pubkey, sigversion, execdata)
    elif "DISCOURAGE_UPGRADABLE_PUBKEYTYPE" in flags:
        raise ScriptErr("DISCOURAGE_UPGRADABLE_PUBKEYTYPE")
    return success


def eval_script(stack: list, script: bytes, flags, checker: Checker, sigversion: str, execdata: dict, stats: dict | None = None) -> None:
    """raises ScriptErr; mutates stack"""
    if sigversion in ("BASE", "WITNESS_V0") and len(script) > MAX_SCRIPT_SIZE:
        raise ScriptErr("SCRIPT_SIZE")
    pc = 0
    pend = len(script)
    pbegincodehash = 0
    vf_exec: list[bool] = []
    altstack: list[bytes] = []
    n_op_count = 0
    require_minimal = "MINIMALDATA" in flags
    opcode_pos = 0
    execdata["codeseparator_pos"] = 0xFFFFFFFF
    vch_true, vch_false = b"\x01", b""

    def need(k, err="INVALID_STACK_OPERATION"):
        if len(stack) < k:
            raise ScriptErr(err)

    try:
        while pc < pend:
            f_exec = all(vf_exec)
            ok, pc, opcode, pushvalue = get_op(script, pc)
            if not ok:
                raise ScriptErr("BAD_OPCODE")
            if len(pushvalue) > MAX_SCRIPT_ELEMENT_SIZE:
                raise ScriptErr("PUSH_SIZE")
            if sigversion in ("BASE", "WITNESS_V0"):
                if opcode > 0x60:
                    n_op_count += 1
                    if n_op_count > MAX_OPS_PER_SCRIPT:
                        raise ScriptErr("OP_COUNT")
            if opcode in DISABLED:
                raise ScriptErr("DISABLED_OPCODE")
            if opcode == 0xAB and sigversion == "BASE" and "CONST_SCRIPTCODE" in flags:
                raise ScriptErr("OP_CODESEPARATOR")
            if stats is not None and f_exec:
                stats["executed"] = stats.get("executed", 0) + 1
            if f_exec and 0 <= opcode <= 0x4E:
                if require_minimal and not check_minimal_push(pushvalue, opcode):
                    raise ScriptErr("MINIMALDATA")
                stack.append(pushvalue)
            elif f_exec or (0x63 <= opcode <= 0x68):
                if opcode == 0x4F or 0x51 <= opcode <= 0x60:
                    stack.append(num_encode(opcode - 0x50))
                elif opcode == 0x61:  # NOP
                    pass
                elif opcode == 0xB1:  # CLTV
                    if "CHECKLOCKTIMEVERIFY" in flags:
                        need(1)
                        n = num_decode(stack[-1], require_minimal, 5)
                        if n < 0:
                            raise ScriptErr("NEGATIVE_LOCKTIME")
                        if not checker.check_lock_time(n):
                            raise ScriptErr("UNSATISFIED_LOCKTIME")
                elif opcode == 0xB2:  # CSV
                    if "CHECKSEQUENCEVERIFY" in flags:
                        need(1)
                        n = num_decode(stack[-1], require_minimal, 5)
                        if n < 0:
                            raise ScriptErr("NEGATIVE_LOCKTIME")
                        if not (n & SEQUENCE_LOCKTIME_DISABLE_FLAG):
                            if not checker.check_sequence(n):
                                raise ScriptErr("UNSATISFIED_LOCKTIME")
                elif opcode == 0xB0 or 0xB3 <= opcode <= 0xB9:
                    if "DISCOURAGE_UPGRADABLE_NOPS" in flags:
                        raise ScriptErr("DISCOURAGE_UPGRADABLE_NOPS")
                elif opcode in (0x63, 0x64):  # IF NOTIF
                    value = False
                    if f_exec:
                        need(1)  # the vendored vectors (Core >= 29) expect INVALID_STACK_OPERATION here (older: UNBALANCED_CONDITIONAL)
                        vch = stack[-1]
                        if sigversion == "TAPSCRIPT":
                            if len(vch) > 1 or (len(vch) == 1 and vch[0] != 1):
                                raise ScriptErr("TAPSCRIPT_MINIMALIF")
                        if sigversion == "WITNESS_V0" and "MINIMALIF" in flags:
                            if len(vch) > 1:
                                raise ScriptErr("MINIMALIF")
                            if len(vch) == 1 and vch[0] != 1:
                                raise ScriptErr("MINIMALIF")
                        value = cast_to_bool(vch)
                        if opcode == 0x64:
                            value = not value
                        stack.pop()
                    vf_exec.append(value)
                elif opcode == 0x67:
                    if not vf_exec:
                        raise ScriptErr("UNBALANCED_CONDITIONAL")
                    vf_exec[-1] = not vf_exec[-1]
                elif opcode == 0x68:
                    if not vf_exec:
                        raise ScriptErr("UNBALANCED_CONDITIONAL")
                    vf_exec.pop()
                elif opcode == 0x69:  # VERIFY
                    need(1)
                    if cast_to_bool(stack[-1]):
                        stack.pop()
                    else:
                        raise ScriptErr("VERIFY")
                elif opcode == 0x6A:
                    raise ScriptErr("OP_RETURN")
                elif opcode == 0x6B:
                    need(1)
                    altstack.append(stack.pop())
                elif opcode == 0x6C:
                    if len(altstack) < 1:
                        raise ScriptErr("INVALID_ALTSTACK_OPERATION")
                    stack.append(altstack.pop())
                elif opcode == 0x6D:
                    need(2)
                    stack.pop()
                    stack.pop()
                elif opcode == 0x6E:
                    need(2)
                    stack.extend([stack[-2], stack[-1]])
                elif opcode == 0x6F:
                    need(3)
                    stack.extend([stack[-3], stack[-2], stack[-1]])
                elif opcode == 0x70:
                    need(4)
                    stack.extend([stack[-4], stack[-3]])
                elif opcode == 0x71:
                    need(6)
                    a, b = stack[-6], stack[-5]
                    del stack[-6:-4]
                    stack.extend([a, b])
                elif opcode == 0x72:
                    need(4)
                    stack[-4], stack[-2] = stack[-2], stack[-4]
                    stack[-3], stack[-1] = stack[-1], stack[-3]
                elif opcode == 0x73:
                    need(1)
                    if cast_to_bool(stack[-1]):
                        stack.append(stack[-1])
                elif opcode == 0x74:
                    stack.append(num_encode(len(stack)))
                elif opcode == 0x75:
                    need(1)
                    stack.pop()
                elif opcode == 0x76:
                    need(1)
                    stack.append(stack[-1])
                elif opcode == 0x77:
                    need(2)
                    del stack[-2]
                elif opcode == 0x78:
                    need(2)
                    stack.append(stack[-2])
                elif opcode in (0x79, 0x7A):
                    need(2)
                    n = num_decode(stack[-1], require_minimal)
                    stack.pop()
                    if n < 0 or n >= len(stack):
                        raise ScriptErr("INVALID_STACK_OPERATION")
                    v = stack[-n - 1]
                    if opcode == 0x7A:
                        del stack[-n - 1]
                    stack.append(v)
                elif opcode == 0x7B:
                    need(3)
                    stack[-3], stack[-2] = stack[-2], stack[-3]
                    stack[-2], stack[-1] = stack[-1], stack[-2]
                elif opcode == 0x7C:
                    need(2)
                    stack[-2], stack[-1] = stack[-1], stack[-2]
                elif opcode == 0x7D:
                    need(2)
                    stack.insert(len(stack) - 2, stack[-1])
                elif opcode == 0x82:
                    need(1)
                    stack.append(num_encode(len(stack[-1])))
                elif opcode in (0x87, 0x88):
                    need(2)
                    eq = stack[-2] == stack[-1]
                    stack.pop()
                    stack.pop()
                    stack.append(vch_true if eq else vch_false)
                    if opcode == 0x88:
                        if eq:
                            stack.pop()
                        else:
                            raise ScriptErr("EQUALVERIFY")
                elif opcode in (0x8B, 0x8C, 0x8F, 0x90, 0x91, 0x92):
                    need(1)
                    bn = num_decode(stack[-1], require_minimal)
                    if opcode == 0x8B:
                        bn += 1
                    elif opcode == 0x8C:
                        bn -= 1
                    elif opcode == 0x8F:
                        bn = -bn
                    elif opcode == 0x90:
                        bn = abs(bn)
                    elif opcode == 0x91:
                        bn = int(bn == 0)
                    else:
                        bn = int(bn != 0)
                    stack.pop()
                    stack.append(num_encode(bn))
                elif opcode in (0x93, 0x94, 0x9A, 0x9B, 0x9C, 0x9D, 0x9E, 0x9F, 0xA0, 0xA1, 0xA2, 0xA3, 0xA4):
                    need(2)
                    a = num_decode(stack[-2], require_minimal)
                    b = num_decode(stack[-1], require_minimal)
                    r = {
                        0x93: lambda: a + b, 0x94: lambda: a - b, 0x9A: lambda: int(a != 0 and b != 0), 0x9B: lambda: int(a != 0 or b != 0),
                        0x9C: lambda: int(a == b), 0x9D: lambda: int(a == b), 0x9E: lambda: int(a != b), 0x9F: lambda: int(a < b),
                        0xA0: lambda: int(a > b), 0xA1: lambda: int(a <= b), 0xA2: lambda: int(a >= b), 0xA3: lambda: min(a, b), 0xA4: lambda: max(a, b),
                    }[opcode]()  # fmt: skip
                    stack.pop()
                    stack.pop()
                    stack.append(num_encode(r))
                    if opcode == 0x9D:
                        if cast_to_bool(stack[-1]):
                            stack.pop()
                        else:
                            raise ScriptErr("NUMEQUALVERIFY")
                elif opcode == 0xA5:
                    need(3)
                    x = num_decode(stack[-3], require_minimal)
                    lo = num_decode(stack[-2], require_minimal)
                    hi = num_decode(stack[-1], require_minimal)
                    del stack[-3:]
                    stack.append(vch_true if lo <= x < hi else vch_false)
                elif 0xA6 <= opcode <= 0xAA:
                    need(1)
                    v = stack.pop()
                    if opcode == 0xA6:
                        h = hashlib.new("ripemd160", v).digest()
                    elif opcode == 0xA7:
                        h = hashlib.sha1(v).digest()
                    elif opcode == 0xA8:
                        h = hashlib.sha256(v).digest()
                    elif opcode == 0xA9:
                        h = hashlib.new("ripemd160", hashlib.sha256(v).digest()).digest()
                    else:
                        h = hashlib.sha256(hashlib.sha256(v).digest()).digest()
                    stack.append(h)
                elif opcode == 0xAB:
                    pbegincodehash = pc
                    execdata["codeseparator_pos"] = opcode_pos
                elif opcode in (0xAC, 0xAD):
                    need(2)
                    sig, pk = stack[-2], stack[-1]
                    success = _eval_checksig(sig, pk, script, pbegincodehash, execdata, flags, checker, sigversion)
                    stack.pop()
                    stack.pop()
                    stack.append(vch_true if success else vch_false)
                    if opcode == 0xAD:
                        if success:
                            stack.pop()
                        else:
                            raise ScriptErr("CHECKSIGVERIFY")
                elif opcode == 0xBA:
                    if sigversion in ("BASE", "WITNESS_V0"):
                        raise ScriptErr("BAD_OPCODE")
                    need(3)
                    sig = stack[-3]
                    num = num_decode(stack[-2], require_minimal)
                    pk = stack[-1]
                    success = _eval_checksig(sig, pk, script, pbegincodehash, execdata, flags, checker, sigversion)
                    del stack[-3:]
                    stack.append(num_encode(num + (1 if success else 0)))
                elif opcode in (0xAE, 0xAF):
                    if sigversion == "TAPSCRIPT":
                        raise ScriptErr("TAPSCRIPT_CHECKMULTISIG")
                    i = 1
                    need(i)
                    n_keys = num_decode(stack[-i], require_minimal)
                    if n_keys < 0 or n_keys > MAX_PUBKEYS_PER_MULTISIG:
                        raise ScriptErr("PUBKEY_COUNT")
                    n_op_count += n_keys
                    if n_op_count > MAX_OPS_PER_SCRIPT:
                        raise ScriptErr("OP_COUNT")
                    i += 1
                    ikey = i
                    ikey2 = n_keys + 2
                    i += n_keys
                    need(i)
                    n_sigs = num_decode(stack[-i], require_minimal)
                    if n_sigs < 0 or n_sigs > n_keys:
                        raise ScriptErr("SIG_COUNT")
                    i += 1
                    isig = i
                    i += n_sigs
                    need(i)
                    script_code = script[pbegincodehash:]
                    for k in range(n_sigs):
                        sig = stack[-isig - k]
                        if sigversion == "BASE":
                            script_code, found = find_and_delete(script_code, push_data(sig))
                            if found > 0 and "CONST_SCRIPTCODE" in flags:
                                raise ScriptErr("SIG_FINDANDDELETE")
                    success = True
                    while success and n_sigs > 0:
                        sig = stack[-isig]
                        pk = stack[-ikey]
                        check_signature_encoding(sig, flags)
                        check_pubkey_encoding(pk, flags, sigversion)
                        ok_ = checker.check_ecdsa(sig, pk, script_code, sigversion)
                        if ok_:
                            isig += 1
                            n_sigs -= 1
                        ikey += 1
                        n_keys -= 1
                        if n_sigs > n_keys:
                            success = False
                    while i > 1:
                        i -= 1
                        if not success and "NULLFAIL" in flags and not ikey2 and len(stack[-1]):
                            raise ScriptErr("NULLFAIL")
                        if ikey2 > 0:
                            ikey2 -= 1
                        stack.pop()
                    need(1)
                    if "NULLDUMMY" in flags and len(stack[-1]):
                        raise ScriptErr("SIG_NULLDUMMY")
                    stack.pop()
                    stack.append(vch_true if success else vch_false)
                    if opcode == 0xAF:
                        if success:
                            stack.pop()
                        else:
                            raise ScriptErr("CHECKMULTISIGVERIFY")
                else:
                    raise ScriptErr("BAD_OPCODE")
            if len(stack) + len(altstack) > MAX_STACK_SIZE:
                raise ScriptErr("STACK_SIZE")
            opcode_pos += 1
    except ScriptNumError:
        raise ScriptErr("SCRIPTNUM") from None  # Core >= 29 names it (older: UNKNOWN_ERROR)
    if vf_exec:
        raise ScriptErr("UNBALANCED_CONDITIONAL")


# ------------------------------------------------------------------ witness programs
def tagged(tag: str, data: bytes) -> bytes:
    t = sha256(tag.encode())
    return sha256(t + t + data)


def verify_taproot_commitment(control: bytes, program: bytes, tapleaf_hash: bytes) -> bool:
    path_len = (len(control) - 33) // 32
    p = control[1:33]
    k = tapleaf_hash
    for i in range(path_len):
        node = control[33 + 32 * i : 65 + 32 * i]
        k = tagged("TapBranch", k + node) if k < node else tagged("TapBranch", node + k)
    return fastec.check_tap_tweak(program, p, k, control[0] & 1)


def execute_witness_script(stack_in: list, exec_script: bytes, flags, sigversion: str, checker, execdata, stats=None) -> None:
    stack = list(stack_in)
    if sigversion == "TAPSCRIPT":
        pc = 0
        while pc < len(exec_script):
            ok, pc, opcode, _ = get_op(exec_script, pc)
            if not ok:
                raise ScriptErr("BAD_OPCODE")
            if is_op_success(opcode):
                if "DISCOURAGE_OP_SUCCESS" in flags:
                    raise ScriptErr("DISCOURAGE_OP_SUCCESS")
                return
        if len(stack) > MAX_STACK_SIZE:
            raise ScriptErr("STACK_SIZE")
    for e in stack:
        if len(e) > MAX_SCRIPT_ELEMENT_SIZE:
            raise ScriptErr("PUSH_SIZE")
    eval_script(stack, exec_script, flags, checker, sigversion, execdata, stats)
    if len(stack) != 1:
        raise ScriptErr("CLEANSTACK")
    if not cast_to_bool(stack[-1]):
        raise ScriptErr("EVAL_FALSE")


def verify_witness_program(witness: list, version: int, program: bytes, flags, checker, is_p2sh: bool, stats=None) -> None:
    stack = list(witness)
    execdata: dict = {}
    if version == 0:
        if len(program) == 32:
            if len(stack) == 0:
                raise ScriptErr("WITNESS_PROGRAM_WITNESS_EMPTY")
            script_bytes = stack.pop()
            if sha256(script_bytes) != program:
                raise ScriptErr("WITNESS_PROGRAM_MISMATCH")
            return execute_witness_script(stack, script_bytes, flags, "WITNESS_V0", checker, execdata, stats)
        if len(program) == 20:
            if len(stack) != 2:
                raise ScriptErr("WITNESS_PROGRAM_MISMATCH")
            exec_script = b"\x76\xa9\x14" + program + b"\x88\xac"
            return execute_witness_script(stack, exec_script, flags, "WITNESS_V0", checker, execdata, stats)
        raise ScriptErr("WITNESS_PROGRAM_WRONG_LENGTH")
    if version == 1 and len(program) == 32 and not is_p2sh:
        if "TAPROOT" not in flags:
            return
        if len(stack) == 0:
            raise ScriptErr("WITNESS_PROGRAM_WITNESS_EMPTY")
        if len(stack) >= 2 and stack[-1] and stack[-1][0] == ANNEX_TAG:
            execdata["annex"] = stack.pop()
        if len(stack) == 1:
            checker.check_schnorr(stack[0], program, "TAPROOT", execdata)
            return
        control = stack.pop()
        script = stack.pop()
        if len(control) < 33 or len(control) > 33 + 32 * 128 or (len(control) - 33) % 32:
            raise ScriptErr("TAPROOT_WRONG_CONTROL_SIZE")
        execdata["tapleaf_hash"] = tagged("TapLeaf", bytes([control[0] & 0xFE]) + ser_string(script))
        if not verify_taproot_commitment(control, program, execdata["tapleaf_hash"]):
            raise ScriptErr("WITNESS_PROGRAM_MISMATCH")
        if (control[0] & 0xFE) == 0xC0:
            wit_ser = len(_compact(len(witness))) + sum(len(ser_string(w)) for w in witness)
            execdata["validation_weight_left"] = wit_ser + VALIDATION_WEIGHT_OFFSET
            return execute_witness_script(stack, script, flags, "TAPSCRIPT", checker, execdata, stats)
        if "DISCOURAGE_UPGRADABLE_TAPROOT_VERSION" in flags:
            raise ScriptErr("DISCOURAGE_UPGRADABLE_TAPROOT_VERSION")
        return
    if not is_p2sh and version == 1 and program == b"\x4e\x73":
        return  # pay-to-anchor (Core >= 28)
    if "DISCOURAGE_UPGRADABLE_WITNESS_PROGRAM" in flags:
        raise ScriptErr("DISCOURAGE_UPGRADABLE_WITNESS_PROGRAM")


def _compact(n):
    from .tx_ref import compact_size

    return compact_size(n)


# ------------------------------------------------------------------ VerifyScript
def verify_script(script_sig: bytes, script_pubkey: bytes, witness: list, flags, checker: Checker, stats=None) -> str:
    try:
        _verify_script(script_sig, script_pubkey, witness, flags, checker, stats)
    except ScriptErr as e:
        return e.code
    return "OK"


def _verify_script(script_sig, script_pubkey, witness, flags, checker, stats) -> None:
    had_witness = False
    if "SIGPUSHONLY" in flags and not is_push_only(script_sig):
        raise ScriptErr("SIG_PUSHONLY")
    stack: list[bytes] = []
    eval_script(stack, script_sig, flags, checker, "BASE", {}, stats)
    stack_copy = list(stack) if "P2SH" in flags else []
    eval_script(stack, script_pubkey, flags, checker, "BASE", {}, stats)
    if not stack:
        raise ScriptErr("EVAL_FALSE")
    if not cast_to_bool(stack[-1]):
        raise ScriptErr("EVAL_FALSE")
    if "WITNESS" in flags:
        wp = is_witness_program(script_pubkey)
        if wp is not None:
            had_witness = True
            if len(script_sig) != 0:
                raise ScriptErr("WITNESS_MALLEATED")
            verify_witness_program(witness, wp[0], wp[1], flags, checker, False, stats)
            del stack[1:]
    if "P2SH" in flags and is_p2sh(script_pubkey):
        if not is_push_only(script_sig):
            raise ScriptErr("SIG_PUSHONLY")
        stack = stack_copy
        assert stack
        pubkey2 = stack.pop()
        eval_script(stack, pubkey2, flags, checker, "BASE", {}, stats)
        if not stack:
            raise ScriptErr("EVAL_FALSE")
        if not cast_to_bool(stack[-1]):
            raise ScriptErr("EVAL_FALSE")
        if "WITNESS" in flags:
            wp = is_witness_program(pubkey2)
            if wp is not None:
                had_witness = True
                if script_sig != push_data(pubkey2):
                    raise ScriptErr("WITNESS_MALLEATED_P2SH")
                verify_witness_program(witness, wp[0], wp[1], flags, checker, True, stats)
                del stack[1:]
    if "CLEANSTACK" in flags:
        assert "P2SH" in flags and "WITNESS" in flags
        if len(stack) != 1:
            raise ScriptErr("CLEANSTACK")
    if "WITNESS" in flags:
        assert "P2SH" in flags
        if not had_witness and witness:
            raise ScriptErr("WITNESS_UNEXPECTED")


def verify_input(tx: dict, idx: int, spent: list[dict], flags, stats=None) -> str:
    i = tx["vin"][idx]
    checker = Checker(tx, idx, spent)
    return verify_script(bytes.fromhex(i["script_sig"]), bytes.fromhex(spent[idx]["spk"]), [bytes.fromhex(w) for w in i.get("witness") or []], set(flags), checker, stats)
