"""Base58Check reference (Bitcoin Core's base58.cpp semantics: leading zero bytes <-> leading '1's). stdlib only."""

import hashlib

ALPHABET = "123456789ABCDEFGHJKLMNPQRSTUVWXYZabcdefghijkmnopqrstuvwxyz"


def b58encode(b: bytes) -> str:
    n = int.from_bytes(b, "big")
    s = ""
    while n:
        n, r = divmod(n, 58)
        s = ALPHABET[r] + s
    pad = len(b) - len(b.lstrip(b"\x00"))
    return "1" * pad + s


def b58decode(s: str):
    """None if a character is outside the alphabet."""
    n = 0
    for ch in s:
        i = ALPHABET.find(ch)
        if i < 0:
            return None
        n = n * 58 + i
    pad = len(s) - len(s.lstrip("1"))
    body = n.to_bytes((n.bit_length() + 7) // 8, "big") if n else b""
    return b"\x00" * pad + body


def check_encode(payload: bytes) -> str:
    return b58encode(payload + hashlib.sha256(hashlib.sha256(payload).digest()).digest()[:4])


def check_decode(s: str):
    raw = b58decode(s)
    if raw is None or len(raw) < 4:
        return None
    payload, chk = raw[:-4], raw[-4:]
    if hashlib.sha256(hashlib.sha256(payload).digest()).digest()[:4] != chk:
        return None
    return payload
