"""secp256k1 arithmetic for the script model: Jacobian double-and-add (about 1 ms per multiplication), ECDSA and BIP340
verification, SEC parsing as libsecp256k1 does it (hybrid 06/07 accepted when the parity matches), taproot tweak check.
Validated against the slow affine models (ec_ref / bip340_ref) by the C08 check at start. stdlib only."""

from __future__ import annotations

import hashlib

P = 0xFFFFFFFFFFFFFFFFFFFFFFFFFFFFFFFFFFFFFFFFFFFFFFFFFFFFFFFEFFFFFC2F
N = 0xFFFFFFFFFFFFFFFFFFFFFFFFFFFFFFFEBAAEDCE6AF48A03BBFD25E8CD0364141
G = (0x79BE667EF9DCBBAC55A06295CE870B07029BFCDB2DCE28D959F2815B16F81798, 0x483ADA7726A3C4655DA4FBFC0E1108A8FD17B448A68554199C47D08FFB10D4B8)


def jdbl(X, Y, Z):
    if Y == 0 or Z == 0:
        return (0, 1, 0)
    S = 4 * X * Y * Y % P
    M = 3 * X * X % P
    X2 = (M * M - 2 * S) % P
    Y2 = (M * (S - X2) - 8 * Y * Y * Y * Y) % P
    Z2 = 2 * Y * Z % P
    return X2, Y2, Z2


def jadd(A, B):
    X1, Y1, Z1 = A
    X2, Y2, Z2 = B
    if Z1 == 0:
        return B
    if Z2 == 0:
        return A
    Z1Z1 = Z1 * Z1 % P
    Z2Z2 = Z2 * Z2 % P
    U1 = X1 * Z2Z2 % P
    U2 = X2 * Z1Z1 % P
    S1 = Y1 * Z2 * Z2Z2 % P
    S2 = Y2 * Z1 * Z1Z1 % P
    if U1 == U2:
        if S1 != S2:
            return (0, 1, 0)
        return jdbl(X1, Y1, Z1)
    H = (U2 - U1) % P
    R = (S2 - S1) % P
    H2 = H * H % P
    H3 = H * H2 % P
    V = U1 * H2 % P
    X3 = (R * R - H3 - 2 * V) % P
    Y3 = (R * (V - X3) - S1 * H3) % P
    Z3 = H * Z1 * Z2 % P
    return X3, Y3, Z3


def jmul(k: int, Pt):
    k %= N
    R = (0, 1, 0)
    A = (Pt[0], Pt[1], 1)
    while k:
        if k & 1:
            R = jadd(R, A)
        A = jdbl(*A)
        k >>= 1
    return R


def to_affine(J):
    X, Y, Z = J
    if Z == 0:
        return None
    zi = pow(Z, -1, P)
    return X * zi * zi % P, Y * zi * zi * zi % P


def mul(k, Pt):
    return to_affine(jmul(k, Pt))


def double_mul(a, Pa, b, Pb):
    return to_affine(jadd(jmul(a, Pa), jmul(b, Pb)))


def lift_x(x: int, odd: int | None = None):
    if x >= P:
        return None
    y2 = (pow(x, 3, P) + 7) % P
    y = pow(y2, (P + 1) // 4, P)
    if y * y % P != y2:
        return None
    if odd is None:
        odd = 0
    if (y & 1) != odd:
        y = P - y
    return x, y


def parse_pubkey(pk: bytes):
    """secp256k1_ec_pubkey_parse"""
    if len(pk) == 33 and pk[0] in (2, 3):
        return lift_x(int.from_bytes(pk[1:], "big"), pk[0] & 1)
    if len(pk) == 65 and pk[0] in (4, 6, 7):
        x, y = int.from_bytes(pk[1:33], "big"), int.from_bytes(pk[33:], "big")
        if x >= P or y >= P:
            return None
        if (y * y - (x * x * x + 7)) % P:
            return None
        if pk[0] in (6, 7) and (y & 1) != (pk[0] & 1):
            return None
        return x, y
    return None


def ecdsa_verify(digest: bytes, Q, r: int, s: int) -> bool:
    if not (1 <= r < N and 1 <= s < N):
        return False
    e = int.from_bytes(digest, "big") % N
    w = pow(s, -1, N)
    R = double_mul(e * w % N, G, r * w % N, Q)
    return R is not None and R[0] % N == r


def tagged_hash(tag: str, data: bytes) -> bytes:
    t = hashlib.sha256(tag.encode()).digest()
    return hashlib.sha256(t + t + data).digest()


def schnorr_verify(msg: bytes, pk32: bytes, sig: bytes) -> bool:
    if len(pk32) != 32 or len(sig) != 64:
        return False
    Pt = lift_x(int.from_bytes(pk32, "big"), 0)
    r, s = int.from_bytes(sig[:32], "big"), int.from_bytes(sig[32:], "big")
    if Pt is None or r >= P or s >= N:
        return False
    e = int.from_bytes(tagged_hash("BIP0340/challenge", sig[:32] + pk32 + msg), "big") % N
    R = double_mul(s, G, N - e, Pt)
    return R is not None and R[1] % 2 == 0 and R[0] == r


def schnorr_sign(msg: bytes, d0: int, aux: bytes = b"\x00" * 32) -> bytes:
    Pt = mul(d0, G)
    d = d0 if Pt[1] % 2 == 0 else N - d0
    t = (d ^ int.from_bytes(tagged_hash("BIP0340/aux", aux), "big")).to_bytes(32, "big")
    px = Pt[0].to_bytes(32, "big")
    k0 = int.from_bytes(tagged_hash("BIP0340/nonce", t + px + msg), "big") % N
    R = mul(k0, G)
    k = k0 if R[1] % 2 == 0 else N - k0
    rx = R[0].to_bytes(32, "big")
    e = int.from_bytes(tagged_hash("BIP0340/challenge", rx + px + msg), "big") % N
    return rx + ((k + e * d) % N).to_bytes(32, "big")


def ecdsa_sign(digest: bytes, d: int, k: int | None = None, low_s: bool = True):
    e = int.from_bytes(digest, "big") % N
    if k is None:
        k = int.from_bytes(hashlib.sha256(b"nonce" + d.to_bytes(32, "big") + digest).digest(), "big") % (N - 1) + 1
    R = mul(k, G)
    r = R[0] % N
    s = pow(k, -1, N) * (e + r * d) % N
    if low_s and s > N // 2:
        s = N - s
    return r, s


def check_tap_tweak(output32: bytes, internal32: bytes, merkle_root: bytes, parity: int) -> bool:
    """XOnlyPubKey::CheckTapTweak"""
    Pt = lift_x(int.from_bytes(internal32, "big"), 0)
    if Pt is None:
        return False
    t = int.from_bytes(tagged_hash("TapTweak", internal32 + merkle_root), "big")
    if t >= N:
        return False
    Q = to_affine(jadd((Pt[0], Pt[1], 1), jmul(t, G))) if t else Pt
    if Q is None:
        return False
    return Q[0].to_bytes(32, "big") == output32 and (Q[1] & 1) == parity


def tap_tweak_pubkey(internal32: bytes, merkle_root: bytes):
    Pt = lift_x(int.from_bytes(internal32, "big"), 0)
    t = int.from_bytes(tagged_hash("TapTweak", internal32 + merkle_root), "big") % N
    Q = to_affine(jadd((Pt[0], Pt[1], 1), jmul(t, G)))
    return Q[0].to_bytes(32, "big"), Q[1] & 1
