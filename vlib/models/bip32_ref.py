"""BIP32 CKDpriv / CKDpub / fingerprint, transcribed from the BIP. stdlib + bip340_ref's secp256k1 arithmetic."""

from __future__ import annotations

import hashlib
import hmac

from .bip340_ref import G, n, p, point_add, point_mul

HARD = 0x80000000


class InvalidChild(Exception):
    pass


def ser_p(P) -> bytes:
    return bytes([2 + (P[1] & 1)]) + P[0].to_bytes(32, "big")


def parse_p(b: bytes):
    x = int.from_bytes(b[1:], "big")
    y2 = (pow(x, 3, p) + 7) % p
    y = pow(y2, (p + 1) // 4, p)
    assert y * y % p == y2
    if (y & 1) != (b[0] & 1):
        y = p - y
    return (x, y)


def hash160(b: bytes) -> bytes:
    return hashlib.new("ripemd160", hashlib.sha256(b).digest()).digest()


def master(seed: bytes):
    I = hmac.new(b"Bitcoin seed", seed, hashlib.sha512).digest()
    k = int.from_bytes(I[:32], "big")
    if k == 0 or k >= n:
        raise InvalidChild("master")
    return k, I[32:]


def ckd_priv(k: int, c: bytes, i: int):
    if i >= HARD:
        data = b"\x00" + k.to_bytes(32, "big") + i.to_bytes(4, "big")
    else:
        data = ser_p(point_mul(G, k)) + i.to_bytes(4, "big")
    I = hmac.new(c, data, hashlib.sha512).digest()
    il = int.from_bytes(I[:32], "big")
    ki = (il + k) % n
    if il >= n or ki == 0:
        raise InvalidChild(i)
    return ki, I[32:]


def ckd_pub(K, c: bytes, i: int):
    if i >= HARD:
        raise ValueError("hardened from public")
    I = hmac.new(c, ser_p(K) + i.to_bytes(4, "big"), hashlib.sha512).digest()
    il = int.from_bytes(I[:32], "big")
    if il >= n:
        raise InvalidChild(i)
    Ki = point_add(point_mul(G, il), K)
    if Ki is None:
        raise InvalidChild(i)
    return Ki, I[32:]


def derive_priv(seed: bytes, path: list[int]):
    """Returns dict of the six xprv fields (key as int) after walking path from the master of seed."""
    k, c = master(seed)
    depth, fp, idx = 0, b"\x00" * 4, 0
    for i in path:
        fp = hash160(ser_p(point_mul(G, k)))[:4]
        k, c = ckd_priv(k, c, i)
        depth += 1
        idx = i
    return {"depth": depth, "parent_fingerprint": fp, "index": idx, "chain_code": c, "k": k}


def derive_pub_from(K, c: bytes, depth: int, fp: bytes, idx: int, path: list[int]):
    for i in path:
        fp = hash160(ser_p(K))[:4]
        K, c = ckd_pub(K, c, i)
        depth += 1
        idx = i
    return {"depth": depth, "parent_fingerprint": fp, "index": idx, "chain_code": c, "K": K}
