"""ECDSA per SEC 1 v2 (4.1.3 / 4.1.4 / 4.1.6), RFC 6979 nonces, BIP66 strict DER. stdlib + ec_ref only."""

from __future__ import annotations

import hashlib
import hmac

from . import ec_ref as ec


def bits2int(b: bytes, qlen: int) -> int:
    i = int.from_bytes(b, "big")
    blen = 8 * len(b)
    return i >> (blen - qlen) if blen > qlen else i


def challenge(msg_hash: bytes, n: int) -> int:
    """e of SEC 1 4.1.3 step 5: leftmost nlen bits of the hash, reduced mod n."""
    return bits2int(msg_hash, n.bit_length()) % n


def sign_with_nonce(c: int, q: int, k: int, curve, lower_s: bool):
    """curve = (p, a, b, G, n). Returns (r, s, key_id) or None where SEC 1 says pick another k (r=0 or s=0)."""
    p, a, b, G, n = curve
    K = ec.mult(k, G, p, a, n)
    if K is None:
        return None
    r = K[0] % n
    if r == 0:
        return None
    s = pow(k, -1, n) * (c + r * q) % n
    if s == 0:
        return None
    key_id = 2 * (K[0] // n) + (K[1] & 1)
    if lower_s and s > n // 2:
        s = n - s
        key_id ^= 1
    return r, s, key_id


def verify(c: int, Q, r: int, s: int, curve) -> bool:
    p, a, b, G, n = curve
    if not (1 <= r <= n - 1 and 1 <= s <= n - 1):
        return False
    if Q is None or not ec.on_curve(Q, p, a, b):
        return False
    w = pow(s, -1, n)
    R = ec.add(ec.mult(c * w % n, G, p, a), ec.mult(r * w % n, Q, p, a), p, a)
    if R is None:
        return False
    return R[0] % n == r


def recover(c: int, r: int, s: int, key_id: int, curve):
    """SEC 1 4.1.6 with the (j, parity) numbering key_id = 2*j + parity. None if no such point."""
    p, a, b, G, n = curve
    j, par = key_id >> 1, key_id & 1
    x = r + j * n
    if x >= p:
        return None
    y2 = (x**3 + a * x + b) % p
    y = next((y for y in range(p) if y * y % p == y2), None) if p < 2000 else _sqrt(y2, p)
    if y is None:
        return None
    if y == 0:
        return None
    if y & 1 != par:
        y = p - y
    R = (x, y)
    r1 = pow(r, -1, n)
    Q = ec.add(ec.mult(s * r1 % n, R, p, a), ec.mult(-c * r1 % n, G, p, a), p, a)
    return Q


def _sqrt(a, p):
    if pow(a, (p - 1) // 2, p) != 1:
        return 0 if a == 0 else None
    if p % 4 == 3:
        return pow(a, (p + 1) // 4, p)
    # Tonelli-Shanks
    q, s = p - 1, 0
    while q % 2 == 0:
        q //= 2
        s += 1
    z = 2
    while pow(z, (p - 1) // 2, p) != p - 1:
        z += 1
    m, c, t, r = s, pow(z, q, p), pow(a, q, p), pow(a, (q + 1) // 2, p)
    while t != 1:
        i, t2 = 0, t
        while t2 != 1:
            t2 = t2 * t2 % p
            i += 1
        bb = pow(c, 1 << (m - i - 1), p)
        m, c = i, bb * bb % p
        t, r = t * c % p, r * bb % p
    return r


def rfc6979(c: int, q: int, n: int, hf, extra: bytes = b"") -> int:
    """RFC 6979 3.2 with h1 already reduced to the scalar c (bits2octets), optional 3.6 extra data."""
    qlen = n.bit_length()
    rlen = (qlen + 7) // 8
    hlen = hf().digest_size
    x = q.to_bytes(rlen, "big")
    h1 = c.to_bytes(rlen, "big")
    V = b"\x01" * hlen
    K = b"\x00" * hlen
    K = hmac.new(K, V + b"\x00" + x + h1 + extra, hf).digest()
    V = hmac.new(K, V, hf).digest()
    K = hmac.new(K, V + b"\x01" + x + h1 + extra, hf).digest()
    V = hmac.new(K, V, hf).digest()
    while True:
        T = b""
        while len(T) < rlen:
            V = hmac.new(K, V, hf).digest()
            T += V
        k = bits2int(T, qlen)
        if 1 <= k < n:
            return k
        K = hmac.new(K, V + b"\x00", hf).digest()
        V = hmac.new(K, V, hf).digest()


# ----- BIP66 IsValidSignatureEncoding without the trailing hashtype byte -----
def der_strict_decode(sig: bytes):
    """Return (r, s) if `sig` is a strict-DER ECDSA signature per BIP66 (no sighash byte), else None."""
    if len(sig) < 8 or len(sig) > 72:
        return None
    if sig[0] != 0x30:
        return None
    if sig[1] != len(sig) - 2:
        return None
    if sig[2] != 0x02:
        return None
    len_r = sig[3]
    if 5 + len_r >= len(sig):
        return None
    len_s = sig[5 + len_r]
    if len_r + len_s + 6 != len(sig):
        return None
    if len_r == 0:
        return None
    if sig[4] & 0x80:
        return None
    if len_r > 1 and sig[4] == 0 and not (sig[5] & 0x80):
        return None
    if sig[len_r + 4] != 0x02:
        return None
    if len_s == 0:
        return None
    if sig[len_r + 6] & 0x80:
        return None
    if len_s > 1 and sig[len_r + 6] == 0 and not (sig[len_r + 7] & 0x80):
        return None
    r = int.from_bytes(sig[4 : 4 + len_r], "big")
    s = int.from_bytes(sig[6 + len_r :], "big")
    return r, s


def der_encode(r: int, s: int) -> bytes:
    def enc(x):
        b = x.to_bytes((x.bit_length() + 7) // 8 or 1, "big")
        if b[0] & 0x80:
            b = b"\x00" + b
        return b"\x02" + _derlen(len(b)) + b

    body = enc(r) + enc(s)
    return b"\x30" + _derlen(len(body)) + body


def _derlen(n: int) -> bytes:
    if n < 0x80:
        return bytes([n])
    b = n.to_bytes((n.bit_length() + 7) // 8, "big")
    return bytes([0x80 | len(b)]) + b


def hash_by_name(name: str):
    return getattr(hashlib, name)
