"""Signature-hash reference: transcription of Bitcoin Core's test framework
(LegacySignatureMsg, SegwitV0SignatureMsg, TaprootSignatureMsg) and of
interpreter.cpp's SignatureHash, over the dict tx model. stdlib only."""

from __future__ import annotations

import struct

from .tx_ref import compact_size, hash256, ser_outpoint, ser_string, ser_txout, sha256

SIGHASH_DEFAULT = 0
SIGHASH_ALL = 1
SIGHASH_NONE = 2
SIGHASH_SINGLE = 3
SIGHASH_ANYONECANPAY = 0x80
OP_CODESEPARATOR = 0xAB


def tagged_hash(tag: str, data: bytes) -> bytes:
    t = sha256(tag.encode())
    return sha256(t + t + data)


def script_ops(script: bytes):
    """Yield (opcode, start, stop) like Core's GetOp; stop at the first bad push."""
    i = 0
    n = len(script)
    while i < n:
        start = i
        op = script[i]
        i += 1
        if op <= 0x4E:
            if op < 0x4C:
                size = op
            elif op == 0x4C:
                if i + 1 > n:
                    return
                size = script[i]
                i += 1
            elif op == 0x4D:
                if i + 2 > n:
                    return
                size = script[i] | (script[i + 1] << 8)
                i += 2
            else:
                if i + 4 > n:
                    return
                size = int.from_bytes(script[i : i + 4], "little")
                i += 4
            if i + size > n:
                return
            i += size
        yield op, start, i


def find_and_delete_codesep(script: bytes) -> bytes:
    """FindAndDelete(script, CScript(OP_CODESEPARATOR)) as in Core (opcode-boundary walk;
    bytes after an unparseable push are kept verbatim)."""
    out = b""
    last = 0
    pc = 0
    for op, start, stop in script_ops(script):
        # at the start of each op, skip matches
        pc = stop
        if op == OP_CODESEPARATOR:
            out += script[last:start]
            last = stop
    out += script[last:]
    return out


def is_truncated(script: bytes) -> bool:
    """does the script end in a push that announces more bytes than there are?"""
    stop = 0
    for _op, _start, stop in script_ops(script):
        pass
    return stop != len(script)


def serialize_script_code_core(script: bytes) -> bytes:
    """CTransactionSignatureSerializer::SerializeScriptCode as Core has written it since 0.14: the length announced is the script's less its
    OP_CODESEPARATORs, and the bytes are copied up to where GetOp stopped -- which, for a script ending in a push that cannot be read, is just after that
    push's opcode and length bytes, so that fewer bytes follow than were announced. (On a script every push of which can be read this is the same string
    as FindAndDelete's; a script with an unreadable push never verifies, so that the difference is unobservable in consensus.)"""
    n_sep, pieces, begin, it = 0, [], 0, 0
    for op, start, stop in script_ops(script):
        it = stop
        if op == OP_CODESEPARATOR:
            n_sep += 1
            pieces.append(script[begin:start])
            begin = stop
    if it != len(script):  # GetOp failed at `it`: the opcode is consumed, and the length bytes of a PUSHDATA if they are all there
        op, it = script[it], it + 1
        width = {0x4C: 1, 0x4D: 2, 0x4E: 4}.get(op, 0)
        if width and it + width <= len(script):
            it += width
    pieces.append(script[begin:it])
    return compact_size(len(script) - n_sep) + b"".join(pieces)


def legacy(script_code: bytes, tx: dict, idx: int, hashtype: int, tail: str = "verbatim") -> bytes:
    """Core's legacy SignatureHash (CTransactionSignatureSerializer). hashtype is
    the 32-bit int; base type is hashtype & 0x1f. `tail` chooses what becomes of the bytes after an unreadable push:
    "verbatim" (FindAndDelete's reading, the one btclib documents) or "core" (serialize_script_code_core)."""
    assert 0 <= idx < len(tx["vin"])
    base = hashtype & 0x1F
    acp = bool(hashtype & SIGHASH_ANYONECANPAY)
    if base == SIGHASH_SINGLE and idx >= len(tx["vout"]):
        return (1).to_bytes(32, "little")
    written = serialize_script_code_core(script_code) if tail == "core" else ser_string(find_and_delete_codesep(script_code))
    r = struct.pack("<I", tx["version"])
    ins = [idx] if acp else list(range(len(tx["vin"])))
    r += compact_size(len(ins))
    for j in ins:
        i = tx["vin"][j]
        r += ser_outpoint(i)
        r += written if j == idx else b"\x00"
        if j != idx and base in (SIGHASH_SINGLE, SIGHASH_NONE):
            r += struct.pack("<I", 0)
        else:
            r += struct.pack("<I", i["sequence"])
    if base == SIGHASH_NONE:
        nout = 0
    elif base == SIGHASH_SINGLE:
        nout = idx + 1
    else:
        nout = len(tx["vout"])
    r += compact_size(nout)
    for k in range(nout):
        if base == SIGHASH_SINGLE and k != idx:
            r += struct.pack("<q", -1) + b"\x00"
        else:
            r += ser_txout(tx["vout"][k])
    r += struct.pack("<I", tx["lock_time"])
    r += struct.pack("<I", hashtype & 0xFFFFFFFF)
    return hash256(r)


def segwit_v0(script_code: bytes, tx: dict, idx: int, hashtype: int, amount: int) -> bytes:
    base = hashtype & 0x1F
    acp = bool(hashtype & SIGHASH_ANYONECANPAY)
    hash_prevouts = b"\x00" * 32
    hash_sequence = b"\x00" * 32
    hash_outputs = b"\x00" * 32
    if not acp:
        hash_prevouts = hash256(b"".join(ser_outpoint(i) for i in tx["vin"]))
    if not acp and base not in (SIGHASH_SINGLE, SIGHASH_NONE):
        hash_sequence = hash256(b"".join(struct.pack("<I", i["sequence"]) for i in tx["vin"]))
    if base not in (SIGHASH_SINGLE, SIGHASH_NONE):
        hash_outputs = hash256(b"".join(ser_txout(o) for o in tx["vout"]))
    elif base == SIGHASH_SINGLE and idx < len(tx["vout"]):
        hash_outputs = hash256(ser_txout(tx["vout"][idx]))
    i = tx["vin"][idx]
    r = struct.pack("<I", tx["version"])
    r += hash_prevouts + hash_sequence
    r += ser_outpoint(i)
    r += ser_string(script_code)
    r += struct.pack("<q", amount)
    r += struct.pack("<I", i["sequence"])
    r += hash_outputs
    r += struct.pack("<I", tx["lock_time"])
    r += struct.pack("<I", hashtype & 0xFFFFFFFF)
    return hash256(r)


TAPROOT_VALID = (0, 1, 2, 3, 0x81, 0x82, 0x83)


def taproot(
    tx: dict,
    idx: int,
    spent: list[dict],
    hashtype: int,
    *,
    annex: bytes | None = None,
    scriptpath: bool = False,
    leaf_hash: bytes = b"",
    codeseparator_pos: int = 0xFFFFFFFF,
    key_version: int = 0,
) -> bytes | None:
    """BIP341 SigMsg hash; None where the BIP says the signature is invalid."""
    if hashtype not in TAPROOT_VALID:
        return None
    out_type = SIGHASH_ALL if hashtype == 0 else hashtype & 3
    in_type = hashtype & SIGHASH_ANYONECANPAY
    if out_type == SIGHASH_SINGLE and idx >= len(tx["vout"]):
        return None
    assert len(spent) == len(tx["vin"])
    ss = bytes([0, hashtype])
    ss += struct.pack("<i", tx["version"] if tx["version"] < 2**31 else tx["version"] - 2**32)
    ss += struct.pack("<I", tx["lock_time"])
    if in_type != SIGHASH_ANYONECANPAY:
        ss += sha256(b"".join(ser_outpoint(i) for i in tx["vin"]))
        ss += sha256(b"".join(struct.pack("<q", u["value"]) for u in spent))
        ss += sha256(b"".join(ser_string(bytes.fromhex(u["spk"])) for u in spent))
        ss += sha256(b"".join(struct.pack("<I", i["sequence"]) for i in tx["vin"]))
    if out_type == SIGHASH_ALL:
        ss += sha256(b"".join(ser_txout(o) for o in tx["vout"]))
    spend_type = 0
    if annex is not None:
        spend_type |= 1
    if scriptpath:
        spend_type |= 2
    ss += bytes([spend_type])
    if in_type == SIGHASH_ANYONECANPAY:
        ss += ser_outpoint(tx["vin"][idx])
        ss += struct.pack("<q", spent[idx]["value"])
        ss += ser_string(bytes.fromhex(spent[idx]["spk"]))
        ss += struct.pack("<I", tx["vin"][idx]["sequence"])
    else:
        ss += struct.pack("<I", idx)
    if annex is not None:
        ss += sha256(ser_string(annex))
    if out_type == SIGHASH_SINGLE:
        ss += sha256(ser_txout(tx["vout"][idx]))
    if scriptpath:
        ss += leaf_hash
        ss += bytes([key_version])
        ss += struct.pack("<I", codeseparator_pos)
    return tagged_hash("TapSighash", ss)


def tapleaf_hash(leaf_version: int, script: bytes) -> bytes:
    return tagged_hash("TapLeaf", bytes([leaf_version]) + ser_string(script))
