"""Independent BIP174 map splitter: bytes -> [ [(key, value), ...], ... ] (global map first), and back. stdlib only."""

from __future__ import annotations

from .tx_ref import ParseError, _R, compact_size

MAGIC = b"psbt\xff"


def split(b: bytes) -> list[list[tuple[bytes, bytes]]]:
    if b[:5] != MAGIC:
        raise ParseError("magic")
    r = _R(b)
    r.take(5)
    maps = []
    while r.i < len(b):
        cur = []
        while True:
            klen = r.cs()
            if klen == 0:
                break
            key = r.take(klen)
            val = r.take(r.cs())
            cur.append((key, val))
        maps.append(cur)
    return maps


def join(maps: list[list[tuple[bytes, bytes]]]) -> bytes:
    out = MAGIC
    for m in maps:
        for k, v in m:
            out += compact_size(len(k)) + k + compact_size(len(v)) + v
        out += b"\x00"
    return out


def pairs(b: bytes):
    """multiset (sorted list) of (map index, key, value)"""
    return sorted((i, k, v) for i, m in enumerate(split(b)) for k, v in m)
