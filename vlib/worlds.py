"""Wallet worlds: descriptor -> PSBT -> signers -> finalize -> extract, end to end.

Two exports:

    world_case(max_inputs=4, kinds=None) -> SearchStrategy[dict]   JSON-only recipe
    run_world(case) -> dict                                        drives btclib's own roles

`run_world` only routes data between public library roles (it never builds a
script, a signature hash or a witness of its own):

    signers      SoftwareSigner(rootxprv_from_seed(seed)); keys via signer.xpub("m/<origin>")
    descriptors  text -> descriptors.add_checksum -> descriptors.parse
                 key expression: [<master fp>/<origin>]<xpub at origin>/<tail>/*  (ranged, with origin)
    prev txs     btclib.tx.Tx paying `amount` to descriptor.script_pub_key(index) at output `vout`
    creator      Psbt.from_tx(Tx(version, lock_time, vin, vout)) (+ .to_v2())
    updater      non_witness_utxo / witness_utxo, descriptor.update_psbt_input(psbt, i, index),
                 descriptor.update_psbt_output(psbt, o, index), PsbtIn.sig_hash_type,
                 PsbtIn.<hash>_preimages, (v2, optional) PsbtIn.required_*_lock_time
    estimate     psbt.weight_estimate(sizer) before any signature exists; the sizer answers
                 descriptors.miniscript_sizer / descriptors.satisfaction_sizer(keys) for
                 wsh_miniscript inputs and the sizes of Descriptor.satisfy(<filler signatures>)
                 for taproot inputs that carry leaf scripts
    signers      psbt_signer.request_signatures(signer, psbt) sequentially in `sign_order`, or
                 each signer on its own copy of the unsigned psbt and psbt.combine(copies)
    finalizer    psbt.finalize(psbt, solver=...): the solver answers None (generic finalizer),
                 descriptors.miniscript_solver(psbt, i), or TrDescriptor.satisfy(signatures of the
                 chosen leaf, index, spend=SpendContext(...)) as finalize()'s docstring asks for
    extractor    psbt.extract_tx(finalized)

CASE (pure JSON).  Top level: seeds, inputs, outputs, psbt_version, tx_version, lock_time,
sign_order, combine, funding (optional: {"sats_per_kvbyte", "dust_sats_per_kvbyte", "change_script": hex | null} --
tx_builder.build_psbt then makes the psbt out of the updated inputs and the payments, and result["funded"] reports
its fee, change_index and change), stop_after (optional "estimate": nothing is signed), plus serialize_between_roles (every hand-off goes through
Psbt.b64encode/b64decode), solver_scope ("needed" | "all_wsh": descriptors.miniscript_solver is
also offered the wsh multisig inputs), required_locktimes (v2 only: inputs whose script has a
satisfied after() carry PSBT_IN_REQUIRED_*_LOCKTIME = lock_time).
Input: kind, desc (descriptor template: "@i" is key i, "#i" is the digest of preimage i),
keys [{"signer": seed index | null (the fixed EXTERNAL wallet, which never signs), "origin":
"84h/0h/0h" | "", "tail": "0" | ""}], signers (the owner of every key, in key order; summary of
keys), preimages [{"fn","preimage"}], index, amount, vout (position of the spent output in its
previous transaction), sequence, sighash, utxo, finalizer ("plain" | "miniscript_solver" |
"descriptor"), sizer (null | "miniscript_sizer" | "satisfaction_sizer" | "descriptor"),
spend_leaf (taproot script path: left-to-right leaf number; null = key path), and the
informational k, n, older, after, leaves, shape, internal, branch, template.
Output: kind, amount, desc/keys/index (an output of a wallet of the world: update_psbt_output is
called) or script (hex of a foreign script_pub_key).

PRECONDITIONS ENCODED BY CONSTRUCTION (so that a refusal of run_world is the library's):
  P1  timelocks: every after(n) the chosen branch needs has lock_time >= n of the same kind
      (height < 500000000 <= time) and that input's sequence != 0xffffffff; every older(n) needed
      has tx_version 2, sequence bit 31 clear, bit 22 equal to n's and (sequence & 0xffff) >=
      (n & 0xffff); after() templates are not drawn when lock_time == 0.
  P2  BIP341: a taproot input at position >= len(outputs) never asks SIGHASH_SINGLE (3, 0x83).
      ECDSA inputs may (the legacy "one" hash / BIP143 zero hashOutputs are legal).
  P3  ECDSA kinds never ask sighash 0 (ecdsa_sig_hash refuses SIGHASH_DEFAULT); taproot kinds may.
  P4  utxo: legacy kinds (pkh, multi_bare, multi_sh) carry non_witness_utxo only (a witness_utxo on
      a non-witness spend is refused by Psbt.assert_signable / _sig_hash_from_psbt_in); segwit v0 and
      taproot kinds carry witness, non_witness or both.
  P5  plain finalize of a taproot script path (psbt._finalized_taproot_input) needs exactly one script
      path signature, of a <key> OP_CHECKSIG leaf, and no key path signature (the key path is
      preferred): "plain" is drawn for tr_script_pk only when the internal key is not a signer's and
      exactly one pk() leaf belongs to a signer; every other script path spend uses the solver.
  P6  TrDescriptor.satisfy takes signatures keyed by key and answers the first leaf they satisfy, left
      to right: every key slot of a descriptor is a distinct key (distinct account step), and the
      solver offers only the signatures filed under the chosen leaf's tapleaf hash.
  P7  enough signers: single-key kinds and the internal key of tr_key belong to a seed of the world;
      k-of-n kinds have at least k keys of seeds; miniscript templates name which keys must sign
      and which must not (EXTERNAL) for the branch the case means to take.
  P8  signers recognise keys by origin only: every key expression carries [fingerprint/origin].
  P9  satisfaction_sizer answers after() as unmet (its docstring): it is drawn only for wsh_miniscript
      templates whose taken branch has no after(); otherwise miniscript_sizer.
  P10 hash-lock preimages are 32 bytes (BIP379) and are filed in the psbt input before signing.
  P11 v2 psbts need a non-empty output script; amounts: sum(outputs) <= sum(inputs) <= MAX_MONEY.
  P12 a descriptor index is 0 <= index < 2**31 and every descriptor is ranged.
  P13 bare multisig keeps n <= 3, p2sh multisig n <= 4 or 14, 15 (513 of the 520 bytes), wsh multisig n <= 4 or 15, 16 (witness script of 547 bytes), multi_a n <= 4 or one of 11, 12, 15, 16, 20
      (wide ones with k <= 3 signer keys, the rest external).

DETERMINISM: btclib draws BIP340 aux data (and blinding) from `secrets`; run_world calls the
harness's vlib.determinism.reset(case) first, so that the same case gives the same bytes.
Nothing else is random, nothing reads the clock (the self-test's timing apart), nothing is written.

The script engine is called only by the self-test under __main__.
"""

from __future__ import annotations

import json
import time
from functools import lru_cache

from hypothesis import strategies as st

KINDS = [
    "pkh",
    "wpkh",
    "sh_wpkh",
    "multi_bare",
    "multi_sh",
    "multi_wsh",
    "sortedmulti_wsh",
    "multi_sh_wsh",
    "tr_key",
    "tr_script_pk",
    "tr_multi_a",
    "tr_miniscript",
    "wsh_miniscript",
]
LEGACY_KINDS = {"pkh", "multi_bare", "multi_sh"}
TAPROOT_KINDS = {"tr_key", "tr_script_pk", "tr_multi_a", "tr_miniscript"}
MAX_MONEY = 21_000_000 * 100_000_000
EXTERNAL_SEED = "45787465726e616c2077616c6c65742c206e65766572207369676e732e2e2e2e"
# BIP341's example unspendable internal key
NUMS = "50929b74c1a04954b78b4b6035e97a5e078a5a0f28ec96d547bfee9ace803ac0"
ECDSA_SIGHASHES = [None, 1, 2, 3, 0x81, 0x82, 0x83]
TAPROOT_SIGHASHES = [None, 0, 1, 2, 3, 0x81, 0x82, 0x83]
PURPOSE = {
    "pkh": 44,
    "sh_wpkh": 49,
    "wpkh": 84,
    "multi_bare": 45,
    "multi_sh": 45,
    "multi_wsh": 48,
    "sortedmulti_wsh": 48,
    "multi_sh_wsh": 48,
    "tr_key": 86,
    "tr_script_pk": 86,
    "tr_multi_a": 86,
    "tr_miniscript": 86,
    "wsh_miniscript": 48,
}
HASH_FNS = ["sha256", "hash256", "ripemd160", "hash160"]
LOCKTIME_THRESHOLD = 500_000_000

# ----------------------------------------------------------------------------------------
# generator
# ----------------------------------------------------------------------------------------


def _key(draw, owner, purpose, slot):
    """One key expression recipe; `slot` makes the keys of one descriptor distinct (P6)."""
    form = draw(st.sampled_from(["acct", "acct", "acct", "root"]))
    tail = draw(st.sampled_from(["0", "0", "1", "", "0/5"]))
    if form == "acct":
        coin = draw(st.sampled_from([0, 0, 1]))
        origin = f"{purpose}h/{coin}h/{slot}h"
    else:
        origin = ""
        tail = f"{purpose}/{slot}" + (f"/{tail}" if tail else "")
    return {"signer": owner, "origin": origin, "tail": tail}


def _older_value(draw):
    return draw(
        st.one_of(
            st.sampled_from([1, 2, 36, 1008, 0xFFFF, 0x400001, 0x40FFFF, 0x10000, 0x7FFFFFFF]),
            st.integers(1, 0xFFFF),
            st.integers(1, 0x7FFFFFFF),
        )
    )


def _after_value(draw, lock_time):
    """An after() value the transaction's lock_time satisfies (P1); lock_time >= 1."""
    if lock_time < LOCKTIME_THRESHOLD:
        lo, hi = 1, lock_time
    else:
        lo, hi = LOCKTIME_THRESHOLD, min(lock_time, 0x7FFFFFFF)
    return draw(st.one_of(st.sampled_from([lo, hi]), st.integers(lo, hi)))


def _sequence_for(draw, older, after):
    if older is not None:
        low = older & 0xFFFF
        value = draw(st.one_of(st.sampled_from([low, 0xFFFF]), st.integers(low, 0xFFFF)))
        junk = draw(st.one_of(st.just(0), st.integers(0, 0xFFFFFFFF))) & 0x7FBF0000
        return (older & 0x400000) | value | junk
    seq = draw(
        st.one_of(
            st.sampled_from([0xFFFFFFFF, 0xFFFFFFFE, 0xFFFFFFFD, 0, 1, 0x80000000, 0x00400000]),
            st.integers(0, 0xFFFFFFFF),
        )
    )
    if after is not None and seq == 0xFFFFFFFF:
        seq = 0xFFFFFFFE
    return seq


def _miniscript(draw, ctx, owners, lock_time, purpose, base):
    """A miniscript template and what the branch the case means to take needs.

    Returns (template, keys, preimages, older, after, info) where the template uses
    @(base+i) for keys[i] and #i for the digest of preimages[i]; `older`/`after` are the values
    the transaction must satisfy (None when the taken branch has no such lock).
    """
    k0, k1, k2 = f"@{base}", f"@{base + 1}", f"@{base + 2}"
    own = st.sampled_from(owners)
    free = st.sampled_from([*owners, None])
    names = ["pk_older", "or_d_pkh_older", "hashlock", "thresh", "andor", "multi_older", "thresh_older"]
    if lock_time >= 1:
        names += ["pk_after", "or_d_after", "or_d_after"]
    name = draw(st.sampled_from(names))
    older = after = None
    preimages = []
    branch = "primary"
    multi = "multi" if ctx == "wsh" else "multi_a"
    if name == "pk_older":
        older = _older_value(draw)
        template, slots = f"and_v(v:pk({k0}),older({older}))", [draw(own)]
    elif name == "pk_after":
        after = _after_value(draw, lock_time)
        template, slots = f"and_v(v:pk({k0}),after({after}))", [draw(own)]
    elif name == "or_d_after":
        n = _after_value(draw, lock_time)
        template = f"or_d(pk({k0}),and_v(v:pk({k1}),after({n})))"
        branch = draw(st.sampled_from(["primary", "recovery"]))
        if branch == "primary":
            slots = [draw(own), draw(free)]
        else:
            slots, after = [None, draw(own)], n
    elif name == "or_d_pkh_older":
        n = _older_value(draw)
        template = f"or_d(pk({k0}),and_v(v:pkh({k1}),older({n})))"
        branch = draw(st.sampled_from(["primary", "recovery"]))
        if branch == "primary":
            slots = [draw(own), draw(free)]
        else:
            slots, older = [None, draw(own)], n
    elif name == "hashlock":
        fn = draw(st.sampled_from(HASH_FNS))
        preimages = [{"fn": fn, "preimage": draw(st.binary(min_size=32, max_size=32)).hex()}]
        template, slots = f"and_v(v:pk({k0}),{fn}(#0))", [draw(own)]
    elif name == "thresh":
        k = draw(st.integers(1, 3))
        template = f"thresh({k},pk({k0}),s:pk({k1}),s:pk({k2}))"
        must = draw(st.permutations([0, 1, 2]))[:k]
        slots = [draw(own) if i in must else draw(free) for i in range(3)]
        branch = f"{k}-of-3"
    elif name == "andor":
        n = _older_value(draw)
        template = f"andor(pk({k0}),older({n}),pk({k1}))"
        branch = draw(st.sampled_from(["primary", "recovery"]))
        if branch == "primary":
            slots, older = [draw(own), draw(free)], n
        else:
            slots = [None, draw(own)]
    elif name == "multi_older":
        older = _older_value(draw)
        template = f"and_v(v:{multi}(2,{k0},{k1},{k2}),older({older}))"
        must = draw(st.permutations([0, 1, 2]))[:2]
        slots = [draw(own) if i in must else draw(free) for i in range(3)]
    else:  # thresh_older
        n = _older_value(draw)
        template = f"thresh(2,pk({k0}),s:pk({k1}),sln:older({n}))"
        branch = draw(st.sampled_from(["primary", "recovery"]))
        if branch == "primary":
            slots = [draw(own), draw(own)]
        else:
            slots, older = [draw(own), None], n
    keys = [_key(draw, owner, purpose, base + i) for i, owner in enumerate(slots)]
    info = {"template": name, "branch": branch, "uses_after": after is not None}
    return template, keys, preimages, older, after, info


def _shape(draw, leaves):
    """A random binary tree over the leaf numbers, left to right."""
    if len(leaves) == 1:
        return leaves[0]
    cut = draw(st.integers(1, len(leaves) - 1))
    return [_shape(draw, leaves[:cut]), _shape(draw, leaves[cut:])]


def _tree_text(shape, leaf_texts):
    if isinstance(shape, int):
        return leaf_texts[shape]
    return "{" + _tree_text(shape[0], leaf_texts) + "," + _tree_text(shape[1], leaf_texts) + "}"


def _taproot_input(draw, kind, owners, lock_time):
    """tr() recipes: key slot 0 is the internal key (unless NUMS), then the leaves' keys."""
    own = st.sampled_from(owners)
    free = st.sampled_from([*owners, None])
    purpose = PURPOSE[kind]
    keys, leaf_texts, preimages = [], [], []
    older = after = None
    extra = {}

    def new_key(owner):
        keys.append(_key(draw, owner, purpose, len(keys)))
        return f"@{len(keys) - 1}"

    if kind == "tr_key":
        internal = new_key(draw(own))
        n_leaves = draw(st.sampled_from([0, 0, 1, 2]))
        leaf_texts = [f"pk({new_key(draw(free))})" for _ in range(n_leaves)]
        spend_leaf, finalizer = None, "plain"
        extra["internal"] = "signer"
    else:
        internal_kind = draw(st.sampled_from(["nums", "nums", "external", "signer"]))
        if internal_kind == "nums":
            internal = NUMS
        else:
            internal = new_key(None if internal_kind == "external" else draw(own))
        extra["internal"] = internal_kind
        if kind == "tr_script_pk":
            n_leaves = draw(st.integers(1, 4))
            spend_leaf = draw(st.integers(0, n_leaves - 1))
            owners_of_leaves = [draw(own) if i == spend_leaf else draw(free) for i in range(n_leaves)]
            leaf_texts = [f"pk({new_key(owner)})" for owner in owners_of_leaves]
            signable = sum(owner is not None for owner in owners_of_leaves)
            plain_ok = internal_kind != "signer" and signable == 1  # P5
            finalizer = draw(st.sampled_from(["plain", "descriptor"])) if plain_ok else "descriptor"
        else:
            n_other = draw(st.sampled_from([0, 0, 1, 2]))
            spend_leaf = draw(st.integers(0, n_other))
            for i in range(n_other + 1):
                if i != spend_leaf:
                    leaf_texts.append(f"pk({new_key(draw(free))})")
                elif kind == "tr_multi_a":
                    # mostly small; sometimes wide, so that a k-of-n spend runs many CHECKSIGADDs on empty signatures
                    # (BIP342 charges the sigops budget for non-empty signatures only)
                    n = draw(st.one_of(st.integers(1, 4), st.integers(1, 4), st.sampled_from([11, 12, 15, 16, 20])))
                    k = draw(st.integers(1, min(n, 3)))
                    must = draw(st.permutations(list(range(n))))[:k]
                    names = [new_key(draw(own) if j in must else (draw(free) if n <= 4 else None)) for j in range(n)]
                    sort = draw(st.booleans())
                    fn = "sortedmulti_a" if sort else "multi_a"
                    leaf_texts.append(f"{fn}({k},{','.join(names)})")
                    extra.update({"k": k, "n": n, "sorted": sort})
                else:
                    template, ms_keys, preimages, older, after, info = _miniscript(
                        draw, "tap", owners, lock_time, purpose, len(keys)
                    )
                    keys.extend(ms_keys)
                    leaf_texts.append(template)
                    extra.update(info)
            finalizer = "descriptor"
    if leaf_texts:
        shape = _shape(draw, list(range(len(leaf_texts))))
        desc = f"tr({internal},{_tree_text(shape, leaf_texts)})"
    else:
        shape = None
        desc = f"tr({internal})"
    extra.update({"leaves": len(leaf_texts), "shape": shape})
    sizer = "descriptor" if leaf_texts else None
    return desc, keys, preimages, older, after, spend_leaf, finalizer, sizer, extra


@st.composite
def _input(draw, kind, position, n_outputs, owners, lock_time, max_amount):
    own = st.sampled_from(owners)
    free = st.sampled_from([*owners, None])
    purpose = PURPOSE[kind]
    preimages = []
    older = after = spend_leaf = sizer = None
    finalizer = "plain"
    extra = {}
    if kind in ("pkh", "wpkh", "sh_wpkh"):
        keys = [_key(draw, draw(own), purpose, 0)]
        desc = {"pkh": "pkh(@0)", "wpkh": "wpkh(@0)", "sh_wpkh": "sh(wpkh(@0))"}[kind]
    elif kind in ("multi_bare", "multi_sh", "multi_wsh", "sortedmulti_wsh", "multi_sh_wsh"):
        # P13: bare multisig keeps n <= 3; a p2sh redeem script holds at most 15 compressed keys (513 of the 520 bytes); a witness
        # script is not bound by the 520-byte element limit, and multi() takes up to 16 keys (547 bytes)
        wide = {"multi_bare": [], "multi_sh": [14, 15], "multi_wsh": [15, 16], "sortedmulti_wsh": [15, 16], "multi_sh_wsh": [15, 16]}[kind]
        n = draw(st.one_of(st.integers(1, 3 if kind == "multi_bare" else 4), st.integers(1, 4), st.sampled_from(wide))) if wide else draw(st.integers(1, 3))
        k = draw(st.integers(1, min(n, 3)))
        must = draw(st.permutations(list(range(n))))[:k]
        keys = [_key(draw, draw(own) if i in must else draw(free), purpose, i) for i in range(n)]
        sort = kind == "sortedmulti_wsh" or (
            kind in ("multi_sh", "multi_sh_wsh") and draw(st.integers(0, 3)) == 0
        )
        inner = f"{'sortedmulti' if sort else 'multi'}({k},{','.join(f'@{i}' for i in range(n))})"
        desc = {
            "multi_bare": "{}",
            "multi_sh": "sh({})",
            "multi_wsh": "wsh({})",
            "sortedmulti_wsh": "wsh({})",
            "multi_sh_wsh": "sh(wsh({}))",
        }[kind].format(inner)
        extra = {"k": k, "n": n, "sorted": sort}
    elif kind == "wsh_miniscript":
        template, keys, preimages, older, after, extra = _miniscript(
            draw, "wsh", owners, lock_time, purpose, 0
        )
        wrapped = draw(st.integers(0, 4)) == 0
        desc = f"sh(wsh({template}))" if wrapped else f"wsh({template})"
        extra["wrapped"] = wrapped
        finalizer = "miniscript_solver"
        sizer = "miniscript_sizer"
        if not extra["uses_after"] and draw(st.booleans()):  # P9
            sizer = "satisfaction_sizer"
    else:
        desc, keys, preimages, older, after, spend_leaf, finalizer, sizer, extra = _taproot_input(
            draw, kind, owners, lock_time
        )
    if kind in TAPROOT_KINDS:
        sighashes = TAPROOT_SIGHASHES
        if position >= n_outputs:  # P2
            sighashes = [h for h in sighashes if h is None or h & 3 != 3]
    else:
        sighashes = ECDSA_SIGHASHES  # P3
    utxo = "non_witness" if kind in LEGACY_KINDS else draw(st.sampled_from(["witness", "non_witness", "both"]))  # P4
    return {
        "kind": kind,
        "desc": desc,
        "keys": keys,
        "signers": [key["signer"] for key in keys],
        "preimages": preimages,
        "index": draw(st.one_of(st.sampled_from([0, 1, 2**31 - 1]), st.integers(0, 2**31 - 1))),
        "amount": draw(
            st.one_of(st.sampled_from([1, 546, 100_000, max_amount]), st.integers(0, max_amount), st.integers(546, 10**8))
        ),
        "vout": draw(st.sampled_from([0, 0, 1, 2])),
        "sequence": _sequence_for(draw, older, after),
        "sighash": draw(st.sampled_from(sighashes)),
        "utxo": utxo,
        "finalizer": finalizer,
        "sizer": sizer,
        "spend_leaf": spend_leaf,
        "older": older,
        "after": after,
        **extra,
    }


RAW_OUTPUT_SCRIPTS = [
    "6a",  # OP_RETURN
    "6a0b68656c6c6f20776f726c64",
    "0014" + "00" * 20,
    "0020" + "11" * 32,
    "5120" + NUMS,
    "51024e73",  # pay to anchor
    "76a914" + "22" * 20 + "88ac",
    "a914" + "33" * 20 + "87",
    "51",
]


@st.composite
def _output(draw, owners, amount):
    kind = draw(st.sampled_from(["pkh", "wpkh", "sh_wpkh", "tr_key", "multi_wsh", "raw", "raw"]))
    if kind == "raw":
        return {"kind": kind, "amount": amount, "script": draw(st.sampled_from(RAW_OUTPUT_SCRIPTS))}
    owner = st.sampled_from([*owners, None])
    purpose = PURPOSE[kind]
    if kind == "multi_wsh":
        keys = [_key(draw, draw(owner), purpose, i) for i in range(2)]
        desc = "wsh(multi(2,@0,@1))"
    else:
        keys = [_key(draw, draw(owner), purpose, 0)]
        desc = {"pkh": "pkh(@0)", "wpkh": "wpkh(@0)", "sh_wpkh": "sh(wpkh(@0))", "tr_key": "tr(@0)"}[kind]
    return {
        "kind": kind,
        "amount": amount,
        "desc": desc,
        "keys": keys,
        "index": draw(st.one_of(st.sampled_from([0, 1, 2**31 - 1]), st.integers(0, 2**31 - 1))),
    }


@st.composite
def world_case(draw, max_inputs=4, kinds=None):
    """A wallet world as a JSON recipe; every KIND is reachable, `kinds` restricts them."""
    kinds = list(KINDS if kinds is None else kinds)
    unknown = [kind for kind in kinds if kind not in KINDS]
    if unknown or not kinds:
        raise ValueError(f"unknown kinds: {unknown}")
    seeds = draw(
        st.lists(st.binary(min_size=16, max_size=64).map(bytes.hex), min_size=1, max_size=3, unique=True)
    )
    owners = list(range(len(seeds)))
    lock_time = draw(
        st.one_of(
            st.sampled_from([0, 0, 1, 800_000, 499_999_999, 500_000_000, 1_700_000_000, 0x7FFFFFFF, 0xFFFFFFFF]),
            st.integers(1, 499_999_999),
            st.integers(500_000_000, 0xFFFFFFFF),
        )
    )
    n_outputs = draw(st.integers(1, 3))
    n_inputs = draw(st.integers(1, max_inputs))
    max_amount = MAX_MONEY // max(n_inputs, 1) - 10_000  # P11 (the previous transaction also pays fillers)
    inputs = []
    # the first kind is one uniform draw of its own and the others follow it at a drawn stride:
    # kinds that cost many draws are otherwise starved by the engine's example-size heuristics
    first = draw(st.integers(0, len(kinds) - 1))
    stride = draw(st.integers(0, len(kinds) - 1))
    for position in range(n_inputs):
        kind = kinds[(first + position * stride) % len(kinds)]
        inputs.append(draw(_input(kind, position, n_outputs, owners, lock_time, max_amount)))
    remaining = sum(tx_in["amount"] for tx_in in inputs)
    outputs = []
    for _ in range(n_outputs):
        amount = draw(st.one_of(st.integers(0, remaining), st.integers(0, min(remaining, 10**6))))
        remaining -= amount
        outputs.append(draw(_output(owners, amount)))
    uses_older = any(tx_in["older"] is not None for tx_in in inputs)
    psbt_version = draw(st.sampled_from([0, 2]))
    return {
        "seeds": seeds,
        "inputs": inputs,
        "outputs": outputs,
        "psbt_version": psbt_version,
        "tx_version": 2 if uses_older else draw(st.sampled_from([1, 2])),  # P1
        "lock_time": lock_time,
        "sign_order": list(draw(st.permutations(owners))),
        "combine": draw(st.booleans()),
        "serialize_between_roles": draw(st.booleans()),
        "solver_scope": draw(st.sampled_from(["needed", "needed", "needed", "all_wsh"])),
        "required_locktimes": psbt_version == 2 and draw(st.booleans()),
    }


# ----------------------------------------------------------------------------------------
# driver
# ----------------------------------------------------------------------------------------


@lru_cache(maxsize=256)
def _signer(seed_hex):
    from btclib.bip32.bip32 import rootxprv_from_seed
    from btclib.psbt_signer import SoftwareSigner

    return SoftwareSigner(rootxprv_from_seed(seed_hex))


@lru_cache(maxsize=4096)
def _xpub(seed_hex, origin):
    return _signer(seed_hex).xpub("m/" + origin if origin else "m")


def _key_text(key, seeds):
    seed = EXTERNAL_SEED if key["signer"] is None else seeds[key["signer"]]
    fingerprint = _signer(seed).master_fingerprint.hex()
    origin = f"/{key['origin']}" if key["origin"] else ""
    tail = f"/{key['tail']}" if key["tail"] else ""
    return f"[{fingerprint}{origin}]{_xpub(seed, key['origin'])}{tail}/*"


def _digest(fn, preimage):
    from btclib import hashes

    return getattr(hashes, fn)(preimage)


def descriptor_text(recipe, seeds):
    """The descriptor of an input or output recipe, without checksum."""
    text = recipe["desc"]
    for i in reversed(range(len(recipe["keys"]))):
        text = text.replace(f"@{i}", _key_text(recipe["keys"][i], seeds))
    for i, item in enumerate(recipe.get("preimages", [])):
        text = text.replace(f"#{i}", _digest(item["fn"], bytes.fromhex(item["preimage"])).hex())
    return text


def _tree_leaf_texts(tr_text: str) -> list[str]:
    """the leaf expressions of a tr(KEY,TREE) descriptor text, left to right"""
    tree = tr_text[tr_text.index(",") + 1 : -1]
    leaves, depth, start = [], 0, None
    for pos, ch in enumerate(tree):
        if ch == "(":
            depth += 1
        elif ch == ")":
            depth -= 1
        if depth == 0 and ch in "{},":
            if start is not None:
                leaves.append(tree[start:pos])
                start = None
        elif start is None:
            start = pos
    if start is not None:
        leaves.append(tree[start:])
    return leaves


class HarnessErrorInWorld(Exception):
    """a fault of the harness met inside a stage (re-raised as the runner's HarnessError)"""


class _Refusal(Exception):
    def __init__(self, stage, error, classes=()):
        super().__init__(stage)
        self.stage = stage
        self.error = error
        self.classes = list(classes)  # the names of the exception's classes, most derived first


class _Stage:
    """Turn any exception of a library call into a refusal naming its stage."""

    def __init__(self, name):
        self.name = name

    def __enter__(self):
        return self

    def __exit__(self, exc_type, exc, _tb):
        if exc is not None and not isinstance(exc, _Refusal) and isinstance(exc, Exception):
            from btclib.exceptions import BTClibRuntimeError, BTClibTypeError, BTClibValueError
            from vlib.runner import HarnessError, _through_btclib

            # harness code runs inside the stages too (callbacks, look-ups by position): an exception that is not the library's and never passed
            # through a library frame is a fault of the harness, not a refusal by the library
            if isinstance(exc, HarnessErrorInWorld):
                raise HarnessError(f"{self.name}: {exc}") from exc
            if not isinstance(exc, (HarnessError, BTClibValueError, BTClibTypeError, BTClibRuntimeError)) and _through_btclib(exc.__traceback__) is None:
                raise HarnessError(f"{self.name}: {exc_type.__name__}: {exc}") from exc
            if isinstance(exc, HarnessError):
                return False
            raise _Refusal(self.name, f"{exc_type.__name__}: {exc}", [c.__name__ for c in exc_type.__mro__]) from exc
        return False


def run_world(case):
    """Drive the library's roles over one world; deterministic, no engine call."""
    from btclib.descriptors import (
        add_checksum,
        miniscript_sizer,
        miniscript_solver,
        parse,
        satisfaction_sizer,
    )
    from btclib.descriptors.miniscript import SpendContext
    from btclib.psbt.psbt import Psbt, combine, extract_tx, finalize
    from btclib.psbt_signer import request_signatures
    from btclib.script.taproot import leaf_hash
    from btclib.tx import OutPoint, Tx, TxIn, TxOut

    try:  # the harness makes the library's own `secrets` draws a function of the case
        from vlib import determinism

        determinism.reset(case)
    except ImportError:  # pragma: no cover  (standalone use: signatures are then randomized)
        pass
    seeds = case["seeds"]
    inputs, outputs = case["inputs"], case["outputs"]
    notes = []
    result = {"ok": False, "kinds": [tx_in["kind"] for tx_in in inputs], "notes": notes}

    def hand_off(psbt):
        if case.get("serialize_between_roles"):
            return Psbt.b64decode(psbt.b64encode())
        return psbt

    try:
        with _Stage("signers"):
            signers = [_signer(seed) for seed in seeds]
            fingerprints = {signer.master_fingerprint for signer in signers}

        with _Stage("descriptor"):
            in_descs = [parse(add_checksum(descriptor_text(tx_in, seeds))) for tx_in in inputs]
            out_descs = [
                parse(add_checksum(descriptor_text(tx_out, seeds))) if "desc" in tx_out else None
                for tx_out in outputs
            ]
            result["descriptors"] = [add_checksum(str(desc)) for desc in in_descs]

        with _Stage("prev_tx"):
            prev_txs, spent = [], []
            for i, (tx_in, desc) in enumerate(zip(inputs, in_descs, strict=True)):
                paid = TxOut(tx_in["amount"], desc.script_pub_key(tx_in["index"]))
                filler = [TxOut(1000 + j, bytes.fromhex("0014") + bytes([j + 1]) * 20) for j in range(tx_in.get("vout", 0))]
                funding = TxIn(OutPoint(bytes([i + 1]) * 32, i), sequence=0xFFFFFFFF)
                prev_txs.append(Tx(2, 0, [funding], [*filler, paid]))
                spent.append(paid)
            result["prevouts"] = [
                {"value": out.value, "spk": out.script_pub_key.script.hex()} for out in spent
            ]

        with _Stage("tx"):
            vin = [
                TxIn(OutPoint(prev.id, tx_in.get("vout", 0)), sequence=tx_in["sequence"])
                for tx_in, prev in zip(inputs, prev_txs, strict=True)
            ]
            vout = [
                TxOut(
                    tx_out["amount"],
                    desc.script_pub_key(tx_out["index"]) if desc else bytes.fromhex(tx_out["script"]),
                )
                for tx_out, desc in zip(outputs, out_descs, strict=True)
            ]
            tx = Tx(case["tx_version"], case["lock_time"], vin, vout)

        with _Stage("psbt"):
            psbt = Psbt.from_tx(tx)
            if case["psbt_version"] == 2:
                psbt = psbt.to_v2()

        with _Stage("update_input"):
            for i, (tx_in, desc, prev) in enumerate(zip(inputs, in_descs, prev_txs, strict=True)):
                psbt_in = psbt.inputs[i]
                if tx_in["utxo"] in ("non_witness", "both"):
                    psbt_in.non_witness_utxo = prev
                if tx_in["utxo"] in ("witness", "both"):
                    psbt_in.witness_utxo = prev.vout[tx_in.get("vout", 0)]
                psbt = desc.update_psbt_input(psbt, i, tx_in["index"])
                psbt_in = psbt.inputs[i]
                if tx_in["sighash"] is not None:
                    psbt_in.sig_hash_type = tx_in["sighash"]
                for item in tx_in.get("preimages", []):
                    preimage = bytes.fromhex(item["preimage"])
                    getattr(psbt_in, f"{item['fn']}_preimages")[_digest(item["fn"], preimage)] = preimage
                if case.get("required_locktimes") and tx_in.get("after") is not None:
                    if case["lock_time"] < LOCKTIME_THRESHOLD:
                        psbt_in.required_height_lock_time = case["lock_time"]
                    else:
                        psbt_in.required_time_lock_time = case["lock_time"]
            psbt.assert_valid()

        def chosen_leaf_hash(psbt_, i):
            """The tapleaf hash of the leaf the case spends: leaves come left to right."""
            # (found by the leaf's own script, compiled alone under a one-leaf tree: the order taproot_leaf_scripts lists the leaves in is not promised)
            text = descriptor_text(inputs[i], seeds)
            leaf_text = _tree_leaf_texts(text)[inputs[i]["spend_leaf"]]
            alone = parse(add_checksum(f"tr({text[3:text.index(',')]},{leaf_text})"))
            (script, version), = alone.taproot_leaf_scripts(inputs[i]["index"]).values()
            if (script, version) not in in_descs[i].taproot_leaf_scripts(inputs[i]["index"]).values():
                raise HarnessErrorInWorld("the chosen leaf, compiled alone, is not among the descriptor's leaf scripts")
            return leaf_hash(version, script)

        def spend_context(psbt_in, tx_, i):
            return SpendContext(
                sha256_preimages=psbt_in.sha256_preimages,
                hash256_preimages=psbt_in.hash256_preimages,
                ripemd160_preimages=psbt_in.ripemd160_preimages,
                hash160_preimages=psbt_in.hash160_preimages,
                locktime=tx_.lock_time,
                sequence=tx_.vin[i].sequence,
                version=tx_.version,
            )

        by_outpoint = {(tx_in.prev_out.tx_id, tx_in.prev_out.vout): i for i, tx_in in enumerate(vin)}
        # version, lock time and sequences are those of `tx`, whichever outputs the psbt ends up with
        unsigned_tx = tx

        def sizer(psbt_in, tx_in):
            i = by_outpoint[(tx_in.prev_out.tx_id, tx_in.prev_out.vout)]
            mode = inputs[i].get("sizer")
            if mode == "miniscript_sizer":
                return miniscript_sizer(psbt_in, tx_in)
            if mode == "satisfaction_sizer":
                keys = [
                    key
                    for key, origin in psbt_in.hd_key_paths.items()
                    if origin.master_fingerprint in fingerprints
                ]
                return satisfaction_sizer(keys)(psbt_in, tx_in)
            if mode != "descriptor":
                return None
            sig_size = 65 if inputs[i]["sighash"] else 64
            if inputs[i].get("spend_leaf") is None:
                signing = [psbt_in.taproot_internal_key]
            else:
                wanted = chosen_leaf_hash(None, i)
                signing = [
                    key
                    for key, (hashes_, origin) in psbt_in.taproot_hd_key_paths.items()
                    if wanted in hashes_ and origin.master_fingerprint in fingerprints
                ]
            filler = dict.fromkeys(signing, bytes(sig_size))
            _, witness = in_descs[i].satisfy(
                filler, inputs[i]["index"], spend=spend_context(psbt_in, unsigned_tx, i)
            )
            return [len(element) for element in witness.stack]

        funding = case.get("funding")
        if funding:
            # tx_builder.build_psbt takes over from the creator: same inputs (the updated maps),
            # same payments, and the fee / change decision is the library's
            with _Stage("funding"):
                from btclib.fee import FeeRate
                from btclib.tx_builder import build_psbt

                change_script = funding.get("change_script")
                funded = build_psbt(
                    psbt.inputs,
                    vout,
                    FeeRate(sats_per_kvbyte=funding["sats_per_kvbyte"]),
                    None if change_script is None else bytes.fromhex(change_script),
                    tx_version=case["tx_version"],
                    lock_time=case["lock_time"],
                    dust_fee_rate=FeeRate(sats_per_kvbyte=funding.get("dust_sats_per_kvbyte", 3000)),
                    sizer=sizer,
                )
                psbt = funded.psbt
                result["funded"] = {
                    "fee": funded.fee,
                    "change_index": funded.change_index,
                    "change": funded.change,
                    "n_outputs": len(psbt.outputs),
                    "estimated_vsize": psbt.vsize_estimate(sizer),
                }
            if case["psbt_version"] == 2:
                with _Stage("to_v2"):
                    psbt = psbt.to_v2()

        with _Stage("update_output"):
            # (a funded psbt may hold a change output anywhere: the payments are the other outputs, in order)
            change_at = result.get("funded", {}).get("change_index")
            positions = [k for k in range(len(psbt.outputs)) if k != change_at]
            for o, (tx_out, desc) in enumerate(zip(outputs, out_descs, strict=True)):
                if desc is not None:
                    psbt = desc.update_psbt_output(psbt, positions[o], tx_out["index"])
            unsigned = hand_off(psbt)
            result["unsigned_psbt_b64"] = unsigned.b64encode()

        try:
            result["estimated_weight"] = unsigned.weight_estimate(sizer)
        except Exception as e:  # noqa: BLE001  not fatal for the spend itself: reported
            from btclib.exceptions import BTClibRuntimeError, BTClibTypeError, BTClibValueError
            from vlib.runner import HarnessError, _through_btclib

            if isinstance(e, (HarnessError, HarnessErrorInWorld)):
                raise HarnessError(f"estimate: {e}") from e
            if not isinstance(e, (BTClibValueError, BTClibTypeError, BTClibRuntimeError)) and _through_btclib(e.__traceback__) is None:
                raise HarnessError(f"estimate: {type(e).__name__}: {e}") from e  # the sizer callback is harness code
            result["estimated_weight"] = None
            result["estimate_error"] = f"{type(e).__name__}: {e}"
            notes.append(f"estimate refused: {type(e).__name__}: {e}")
        if case.get("stop_after") == "estimate":
            result["ok"] = True
            result["stopped"] = "estimate"
            return result

        with _Stage("sign"):
            order = [signers[s] for s in case["sign_order"]]
            if case["combine"]:
                copies = [hand_off(request_signatures(signer, unsigned)) for signer in order]
            else:
                signed = unsigned
                for signer in order:
                    signed = hand_off(request_signatures(signer, signed))
        if case["combine"]:
            with _Stage("combine"):
                signed = hand_off(combine(copies))
        result["signed_psbt_b64"] = signed.b64encode()

        def solver(psbt_, i):
            mode = inputs[i].get("finalizer", "plain")
            if mode == "miniscript_solver":
                return miniscript_solver(psbt_, i)
            if mode == "descriptor":
                psbt_in = psbt_.inputs[i]
                wanted = chosen_leaf_hash(psbt_, i)
                signatures = {
                    key_data[:32]: signature
                    for key_data, signature in psbt_in.taproot_script_spend_signatures.items()
                    if key_data[32:] == wanted
                }
                return in_descs[i].satisfy(
                    signatures, inputs[i]["index"], spend=spend_context(psbt_in, psbt_.tx, i)
                )
            if case.get("solver_scope") == "all_wsh" and inputs[i]["kind"] in (
                "multi_wsh",
                "sortedmulti_wsh",
                "multi_sh_wsh",
            ):
                return miniscript_solver(psbt_, i)
            return None

        needs_solver = case.get("solver_scope") == "all_wsh" or any(
            tx_in.get("finalizer", "plain") != "plain" for tx_in in inputs
        )
        notes.append("finalize(solver=...)" if needs_solver else "finalize()")
        with _Stage("finalize"):
            final = finalize(signed, solver=solver) if needs_solver else finalize(signed)
            final = hand_off(final)
            result["finalized_psbt_b64"] = final.b64encode()

        with _Stage("extract"):
            signed_tx = extract_tx(final)
            result["tx_hex"] = signed_tx.serialize(include_witness=True).hex()
    except _Refusal as refusal:
        result.update({"ok": False, "stage": refusal.stage, "error": refusal.error, "error_classes": refusal.classes})
        return result
    result["ok"] = True
    return result


# ----------------------------------------------------------------------------------------
# self-test
# ----------------------------------------------------------------------------------------


def _short(case, limit=1500):
    text = json.dumps(case, separators=(",", ":"))
    return text if len(text) <= limit else text[:limit] + f"...(+{len(text) - limit})"


def _selftest(examples=300):
    import hypothesis
    from hypothesis import HealthCheck, given, settings

    from btclib.script.engine import verify_transaction
    from btclib.script.engine.flags import ScriptFlag
    from btclib.tx import Tx, TxOut

    standard = ScriptFlag(0)
    for flag in ScriptFlag:
        if flag.name != "SIGPUSHONLY":
            standard |= flag
    stats = {kind: {"worlds": 0, "ok": 0, "accepted": 0} for kind in KINDS}
    totals = {"worlds": 0, "ok": 0, "accepted": 0, "time": 0.0, "slowest": 0.0, "underestimates": 0}
    refusals, rejections, estimate_errors, underestimates, nondeterministic = {}, [], {}, [], []

    @hypothesis.seed(1)
    @settings(max_examples=examples, database=None, deadline=None, suppress_health_check=list(HealthCheck))
    @given(world_case())
    def draw_worlds(case):
        assert json.loads(json.dumps(case)) == case  # a JSON-only recipe
        started = time.perf_counter()
        result = run_world(case)
        elapsed = time.perf_counter() - started
        totals["worlds"] += 1
        totals["time"] += elapsed
        totals["slowest"] = max(totals["slowest"], elapsed)
        present = set(result["kinds"])
        for kind in present:
            stats[kind]["worlds"] += 1
        if "estimate_error" in result:
            estimate_errors.setdefault(result["estimate_error"], case)
        if not result["ok"]:
            refusals.setdefault((result["stage"], result["error"]), [0, case])[0] += 1
            return
        if totals["worlds"] % 10 == 0 and run_world(case) != result:
            nondeterministic.append(case)
        totals["ok"] += 1
        for kind in present:
            stats[kind]["ok"] += 1
        tx = Tx.parse(result["tx_hex"])
        prevouts = [TxOut(p["value"], bytes.fromhex(p["spk"])) for p in result["prevouts"]]
        verdicts = []
        for name, flags in (("consensus", None), ("standard", standard)):
            try:
                verify_transaction(prevouts, tx, flags)
            except Exception as e:  # noqa: BLE001
                verdicts.append(f"{name}: {type(e).__name__}: {e}")
        if verdicts:
            rejections.append((verdicts, case))
            return
        totals["accepted"] += 1
        for kind in present:
            stats[kind]["accepted"] += 1
        if result["estimated_weight"] is not None and result["estimated_weight"] < tx.weight:
            totals["underestimates"] += 1
            underestimates.append((result["estimated_weight"], tx.weight, case))

    draw_worlds()

    print(f"{'kind':<18}{'worlds':>8}{'ok':>8}{'accepted':>10}")
    for kind in KINDS:
        row = stats[kind]
        print(f"{kind:<18}{row['worlds']:>8}{row['ok']:>8}{row['accepted']:>10}")
    print(f"{'ALL WORLDS':<18}{totals['worlds']:>8}{totals['ok']:>8}{totals['accepted']:>10}")
    print(
        f"mean {1000 * totals['time'] / max(totals['worlds'], 1):.1f} ms/world, "
        f"slowest {1000 * totals['slowest']:.1f} ms; nondeterministic replays: {len(nondeterministic)}"
    )
    print(f"\n== library refusals: {len(refusals)} distinct ==")
    for (stage, error), (count, case) in sorted(refusals.items(), key=lambda item: -item[1][0]):
        print(f"[{count}x] stage={stage} error={error}\n    case={_short(case)}")
    print(f"\n== engine rejections: {len(rejections)} ==")
    for verdicts, case in rejections:
        print(f"{verdicts}\n    case={_short(case, 4000)}")
    print(f"\n== weight estimate refusals: {len(estimate_errors)} distinct ==")
    for error, case in estimate_errors.items():
        print(f"{error}\n    case={_short(case)}")
    print(f"\n== weight estimates below the actual weight: {len(underestimates)} ==")
    for estimated, actual, case in underestimates[:5]:
        print(f"estimated {estimated} < actual {actual}\n    case={_short(case)}")
    reached = all(row["worlds"] >= 10 for row in stats.values())
    ok_share = totals["ok"] / max(totals["worlds"], 1)
    print(f"\nevery kind reached >= 10 times: {reached}; ok share: {ok_share:.1%}")
    return reached and ok_share >= 0.9 and not nondeterministic


if __name__ == "__main__":
    import sys

    sys.exit(0 if _selftest() else 1)
