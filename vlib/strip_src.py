#!/usr/bin/env python3
"""Print python source with comments and docstrings removed (for fast reading)."""
import ast, sys, io, tokenize
def strip(path):
    src=open(path).read()
    tree=ast.parse(src)
    doclines=set()
    for node in ast.walk(tree):
        if isinstance(node,(ast.FunctionDef,ast.AsyncFunctionDef,ast.ClassDef,ast.Module)):
            b=node.body
            if b and isinstance(b[0],ast.Expr) and isinstance(getattr(b[0],'value',None),ast.Constant) and isinstance(b[0].value.value,str):
                first=b[0].value.value.strip().split('\n')[0]
                for l in range(b[0].lineno,b[0].end_lineno+1): doclines.add(l)
                doclines.discard(b[0].lineno)
                # keep first line as summary
                setattr(b[0],'_sum',first)
    comment_lines={}
    for tok in tokenize.generate_tokens(io.StringIO(src).readline):
        if tok.type==tokenize.COMMENT:
            comment_lines[tok.start[0]]=tok.start[1]
    out=[]
    for i,l in enumerate(src.split('\n'),1):
        if i in doclines: continue
        if i in comment_lines:
            l=l[:comment_lines[i]].rstrip()
            if not l.strip(): continue
        if not l.strip(): continue
        out.append(f"{i:5d} {l}")
    return '\n'.join(out)
for p in sys.argv[1:]:
    print(f"##### {p}")
    print(strip(p))
