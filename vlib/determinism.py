"""Make the library's own randomness a function of the case (replayability).

btclib calls `secrets.randbelow/randbits/token_bytes/choice` for blinding,
default aux data, ephemeral keys. Results must not depend on the draws, but a
failure that did would not replay; so the draws come from a PRNG seeded by the
case. Harness-side monkeypatch; nothing in /repo is touched.
"""

from __future__ import annotations

import hashlib
import json
import random
import secrets

_rng = random.Random(0)


def _randbelow(n: int) -> int:
    if n <= 0:
        raise ValueError("Upper bound must be positive.")
    return _rng.randrange(n)


def _randbits(k: int) -> int:
    return _rng.getrandbits(k) if k > 0 else 0


def _token_bytes(nbytes: int | None = None) -> bytes:
    if nbytes is None:
        nbytes = 32
    return _rng.getrandbits(8 * nbytes).to_bytes(nbytes, "big") if nbytes else b""


def _choice(seq):
    return seq[_rng.randrange(len(seq))]


def install() -> None:
    secrets.randbelow = _randbelow
    secrets.randbits = _randbits
    secrets.token_bytes = _token_bytes
    secrets.choice = _choice
    secrets.token_hex = lambda n=None: _token_bytes(n).hex()


def reset(case) -> None:
    """Seed the PRNG from the case (its 'blind_seed' key when present)."""
    if isinstance(case, dict) and "blind_seed" in case:
        s = repr(case["blind_seed"])
    else:
        s = json.dumps(case, sort_keys=True, default=str)
    _rng.seed(int.from_bytes(hashlib.sha256(s.encode()).digest()[:8], "big"))


install()
