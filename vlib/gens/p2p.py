"""Hypothesis strategies for every btclib.p2p class that has a parse/serialize pair.

Conventions (the harness's):

* a generated *case* is pure JSON data (dict / list / int / str / bool / None;
  octets are hex strings), so a shrunk failing case can be saved and replayed;
* ``PAYLOADS[name] = (strategy_factory, build)``: ``strategy_factory()`` returns
  the strategy of cases, ``build(case)`` constructs the btclib object through
  its public constructor with ``check_validity=True`` (the default), so it is
  the library itself that vouches for the validity of what is round-tripped;
* ``CLASSES[name]`` is the btclib class;
* ``COUNT_OF[name](case)`` is the "main count" of a case, for coverage reports;
* ``LOSSY[name](case)`` is True for the valid objects whose *object* round trip
  is documented by btclib not to hold (only ``TxPayload`` / ``BlockPayload``
  whose ``include_witness`` flag disagrees with the presence of a witness, see
  the docstring of btclib/p2p/data.py). Their *encoding* round trip
  (``parse(b).serialize() == b``) is still expected to hold. A harness wanting
  only exactly-invertible objects can ``.filter(lambda c: not LOSSY[n](c))``
  or, better, use ``PAYLOADS_EXACT`` whose strategies construct only those.

Soundness first: every value is constructed inside the ranges read off each
class's ``assert_valid`` (field widths, signedness, p2p/limits.py counts,
BIP155 id -> address length table, strictly increasing BIP152 indexes...),
with no ``assume()`` and no rejecting ``.filter()``. Then completeness: wire
width boundaries, CompactSize 0xfc/0xfd crossings on counts and lengths, enum
members and undefined enum values, optional fields present and absent.

Large vectors (253..300 elements) are *derived* deterministically from a few
drawn elements (``base + i`` hashes, cycled pools) instead of being drawn one
by one: 300 independent 32-byte draws would overrun Hypothesis's 8 KiB
per-example entropy buffer and be discarded. The expanded list is what is
stored in the case, so ``build`` stays a trivial, pure function.

Blocks. ``Block.assert_valid`` (hence ``BlockPayload``'s) demands a proof of
work valid against the *mainnet* limit (``header.assert_valid_pow`` with the
default ``MAINNET_POW_LIMIT_BITS``, i.e. about 2**32 hashes): no block can be
generated. btclib's own tests (tests/p2p/data_test.py,
tests/block/checkblock_test.py) use real mainnet blocks for that reason, and so
does this module: five small real blocks (genesis, 1, 170, 99960, 99993) are
embedded below as hex and turned into structural cases (header fields and
transaction cases) that ``build`` feeds to the constructors field by field,
and, when btclib's tests/block/_data directory is found beside the package, two
big real blocks are referenced by file name (``{"block_file": ...}``): block
200000 (388 transactions: the transaction count crosses the CompactSize 0xfd
boundary) and block 481824 with its witnesses (the only segwit block
available, 1866 transactions). Nothing in a valid block can be varied without
breaking the proof of work, the merkle root or the witness commitment, so the
only free choice for ``BlockPayload`` is (block, include_witness).
``BlockHeader.assert_valid`` does NOT check the proof of work, so the headers
of ``Headers`` and ``CmpctBlock`` are generated freely.
"""

from __future__ import annotations

import json
from collections.abc import Callable
from datetime import datetime, timezone
from functools import lru_cache
from pathlib import Path
from typing import Any

from hypothesis import strategies as st
from hypothesis.strategies import SearchStrategy

import btclib
from btclib import p2p
from btclib.block import Block, BlockHeader
from btclib.block.block import merkle_root_and_mutated_from_transactions
from btclib.tx import Tx

from vlib import build as B
from vlib.gens.common import MAX_MONEY, hex32, hexbytes

# --------------------------------------------------------------------------- #
# scalar strategies
# --------------------------------------------------------------------------- #


def uint(bits: int, extra: tuple[int, ...] = ()) -> SearchStrategy[int]:
    """Unsigned integer of a wire width: boundaries mixed with uniform values."""
    top = (1 << bits) - 1
    half = 1 << (bits - 1)
    edges = sorted({0, 1, 2, half - 1, half, half + 1, top - 1, top, *(e for e in extra if 0 <= e <= top)})
    return st.one_of(st.sampled_from(edges), st.integers(0, top), st.integers(0, min(top, 70000)))


def sint(bits: int, extra: tuple[int, ...] = ()) -> SearchStrategy[int]:
    """Signed (two's complement) integer of a wire width."""
    low, high = -(1 << (bits - 1)), (1 << (bits - 1)) - 1
    edges = sorted({low, low + 1, -2, -1, 0, 1, 2, high - 1, high, *(e for e in extra if low <= e <= high)})
    return st.one_of(st.sampled_from(edges), st.integers(low, high), st.integers(-70000, 70000))


# CompactSize width boundaries, for the one field that is a CompactSize value
# rather than a count (BIP155 services)
_COMPACT_SIZE_EDGES = (0xFC, 0xFD, 0xFE, 0xFF, 0x100, 0xFFFF, 0x10000, 0xFFFFFFFF, 0x100000000)

_U32_TIMES = (0, 1, 2**31 - 1, 2**31, 2**32 - 1)


def timestamp_u32() -> SearchStrategy[int]:
    return st.one_of(uint(32, _U32_TIMES), st.integers(1_231_006_505, 1_900_000_000))


# defined ServiceFlags members, usual combinations, undefined bits, extremes
_SERVICES = (
    0, 1, 1 << 2, 1 << 3, 1 << 6, 1 << 10, 1 << 11,
    1 | 1 << 3, 1 | 1 << 3 | 1 << 10, 1 | 1 << 2 | 1 << 3 | 1 << 6 | 1 << 10 | 1 << 11,
    1 << 1, 1 << 5, 1 << 24, 1 << 63, (1 << 64) - 1,
)  # fmt: skip


def services(extra: tuple[int, ...] = ()) -> SearchStrategy[int]:
    return st.one_of(st.sampled_from(_SERVICES), uint(64, extra))


def h32() -> SearchStrategy[str]:
    """32-octet hash; random ones are byte-order asymmetric, which is what detects a missing reversal."""
    return st.one_of(
        hex32(),
        st.sampled_from(["00" * 32, "ff" * 32, "00" * 31 + "01", "01" + "00" * 31, "80" + "00" * 31, "ff" * 31 + "fe"]),
    )


def _hash_run(base: str, n: int) -> list[str]:
    """n distinct hashes derived from one drawn hash (base + i mod 2**256)."""
    b = int(base, 16)
    return [format((b + i) % (1 << 256), "064x") for i in range(n)]


def _cycle(pool: list[Any], n: int) -> list[Any]:
    return [pool[i % len(pool)] for i in range(n)]


_SMALL = 8  # up to this many elements are drawn independently


def _draw_hashes(draw: Any, n: int) -> list[str]:
    if n <= _SMALL:
        return [draw(h32()) for _ in range(n)]
    return _hash_run(draw(h32()), n)


def _draw_pool_list(draw: Any, elem: SearchStrategy[Any], n: int) -> list[Any]:
    """n elements: independent when few, a cycled pool of 1..4 drawn ones when many."""
    if n <= _SMALL:
        return [draw(elem) for _ in range(n)]
    pool = [draw(elem) for _ in range(draw(st.integers(1, 4)))]
    return _cycle(pool, n)


def count(limit: int, few: int = 6, big: bool = True) -> SearchStrategy[int]:
    """A vector length in 0..limit: 0 / 1 / 2 / few, and the interesting large ones.

    Large is the CompactSize 0xfc/0xfd crossing (252, 253, 254 .. 300) when the
    limit allows, and the limit itself (with limit - 1) when it is below that.
    """
    few = min(few, limit)
    parts = [
        st.sampled_from([0, 0, 1, 1, 1, 2, 2]),
        st.integers(min(3, few), few),
        st.integers(0, few),
    ]
    if big:
        if limit >= 253:
            top = min(300, limit)
            parts.append(st.one_of(st.sampled_from(sorted({252, 253, min(254, top), top})), st.integers(250, top)))
        elif limit > few:
            parts.append(st.sampled_from([limit - 1, limit]))
    return st.one_of(parts)


def lengthy_hexbytes(limit: int, small: int = 40) -> SearchStrategy[str]:
    """Byte string of length 0..limit as hex: empty, short, and CompactSize-boundary lengths.

    Long strings are one drawn short chunk repeated (entropy budget), cut to length.
    """
    lengths = sorted({n for n in (252, 253, 254, 255, 256, 300, limit - 1, limit) if small < n <= limit})

    @st.composite
    def long(draw: Any) -> str:
        n = draw(st.sampled_from(lengths))
        chunk = draw(st.binary(min_size=1, max_size=16))
        return (chunk * (n // len(chunk) + 1))[:n].hex()

    parts = [st.just(""), hexbytes(1, min(small, limit)), hexbytes(2, min(small, limit))]
    if lengths:
        parts.append(long())
    return st.one_of(parts)


# --------------------------------------------------------------------------- #
# transactions (valid ones: Tx.assert_valid)
# --------------------------------------------------------------------------- #

_NULL_TXID = "00" * 32


@st.composite
def _amounts(draw: Any, n: int) -> list[int]:
    """n output values, each in 0..MAX_MONEY and summing to at most MAX_MONEY (Tx checks the total)."""
    remaining = MAX_MONEY
    out = []
    for _ in range(n):
        v = draw(
            st.one_of(
                st.sampled_from(sorted({0, min(1, remaining), min(546, remaining), max(remaining - 1, 0), remaining})),
                st.integers(0, remaining),
                st.integers(0, min(remaining, 10**9)),
            )
        )
        out.append(v)
        remaining -= v
    return out


@st.composite
def valid_tx_case(draw: Any, max_in: int = 3, max_out: int = 3, coinbase: bool | None = None) -> dict:
    """A transaction Tx.assert_valid accepts, in the shape vlib.build.tx reads.

    >= 1 input and >= 1 output, distinct outpoints, the null outpoint only as the
    single input of a coinbase (whose script_sig is then 2..100 octets), total
    output value <= 21e14, u32 version / lock_time / sequence / vout, scripts of
    any bytes (<= 40), optional witness stacks (an element may be empty, which
    still makes the input segwit; a stack may be empty beside non-empty ones).
    """
    if coinbase is None:
        coinbase = draw(st.integers(0, 9)) == 0
    seq = st.one_of(st.sampled_from([0, 1, 0xFFFFFFFD, 0xFFFFFFFE, 0xFFFFFFFF, 0x80000000]), st.integers(0, 0xFFFFFFFF))
    if coinbase:
        vin = [
            {
                "txid": _NULL_TXID,
                "vout": 0xFFFFFFFF,
                "script_sig": draw(st.one_of(hexbytes(2, 40), st.sampled_from([2, 3, 99, 100]).map(lambda n: "51" * n))),
                "sequence": draw(seq),
                "witness": draw(st.one_of(st.just([]), st.just([]), st.lists(hex32(), min_size=1, max_size=1))),
            }
        ]
    else:
        txid = st.one_of(hex32(), hex32(), st.sampled_from([_NULL_TXID, "00" * 31 + "01", "ff" * 32]))
        vout = st.one_of(st.integers(0, 5), uint(32))
        pairs = draw(st.lists(st.tuples(txid, vout), min_size=1, max_size=max_in))
        # fix-ups instead of rejection: the null outpoint is a coinbase input, refused
        # beside others and a different transaction shape alone; the same outpoint twice
        # is refused. Both are rare, and repaired deterministically.
        pairs = [(t, 0xFFFFFFFE) if (t == _NULL_TXID and v == 0xFFFFFFFF) else (t, v) for t, v in pairs]
        pairs = list(dict.fromkeys(pairs))
        wmode = draw(st.sampled_from(["none", "none", "some", "all"]))
        vin = []
        for t, v in pairs:
            if wmode == "none":
                wit: list[str] = []
            else:
                wit = draw(st.lists(hexbytes(0, 20), min_size=1 if wmode == "all" else 0, max_size=3))
            vin.append({"txid": t, "vout": v, "script_sig": draw(hexbytes(0, 40)), "sequence": draw(seq), "witness": wit})
    nout = draw(st.integers(1, max_out))
    values = draw(_amounts(nout))
    vout_ = [{"value": v, "spk": draw(hexbytes(0, 40))} for v in values]
    return {
        "version": draw(st.one_of(st.sampled_from([1, 2, 3]), uint(32))),
        "lock_time": draw(uint(32, (499_999_999, 500_000_000))),
        "vin": vin,
        "vout": vout_,
    }


def tx_case_is_segwit(case: dict) -> bool:
    """What Tx.is_segwit answers for the transaction of a case (a non-empty stack somewhere)."""
    return any(len(i.get("witness") or []) > 0 for i in case["vin"])


def _tx_to_case(tx: Tx) -> dict:
    """The case of an existing transaction (used for the real blocks only)."""
    return {
        "version": tx.version,
        "lock_time": tx.lock_time,
        "vin": [
            {
                "txid": i.prev_out.tx_id.hex(),
                "vout": i.prev_out.vout,
                "script_sig": i.script_sig.hex(),
                "sequence": i.sequence,
                "witness": [w.hex() for w in i.script_witness.stack],
            }
            for i in tx.vin
        ],
        "vout": [{"value": o.value, "spk": o.script_pub_key.script.hex()} for o in tx.vout],
    }


# --------------------------------------------------------------------------- #
# block headers (BlockHeader.assert_valid: no proof of work asked)
# --------------------------------------------------------------------------- #

_GENESIS_TIME = 1_231_006_505  # BlockHeader refuses an earlier timestamp


@st.composite
def header_case(draw: Any) -> dict:
    """A header BlockHeader.assert_valid accepts.

    version in 1..2**31-1 (a header's version must be positive), timestamp in
    genesis..2**32-1, three fixed-size octet fields, u32 nonce. `bits` is any four
    octets: assert_valid checks its length only (negative, zero and overflowing
    compact targets are assert_valid_pow's, which only Block calls).
    """
    return {
        "version": draw(
            st.one_of(
                st.sampled_from([1, 2, 3, 4, 0x20000000, 0x3FFFFFFF, 0x7FFFFFFE, 0x7FFFFFFF]),
                st.integers(1, 0x7FFFFFFF),
            )
        ),
        "previous_block_hash": draw(h32()),
        "merkle_root": draw(h32()),
        "time": draw(
            st.one_of(
                st.sampled_from([_GENESIS_TIME, _GENESIS_TIME + 1, 2**31 - 1, 2**31, 2**32 - 2, 2**32 - 1]),
                st.integers(_GENESIS_TIME, 2**32 - 1),
            )
        ),
        "bits": draw(
            st.one_of(
                st.sampled_from(["1d00ffff", "207fffff", "1b0404cb", "00000000", "ffffffff", "01800000", "ff7fffff"]),
                st.binary(min_size=4, max_size=4).map(bytes.hex),
            )
        ),
        "nonce": draw(uint(32)),
    }


def build_header(c: dict) -> BlockHeader:
    return BlockHeader(
        c["version"],
        bytes.fromhex(c["previous_block_hash"]),
        bytes.fromhex(c["merkle_root"]),
        datetime.fromtimestamp(c["time"], timezone.utc),  # aware, whole seconds: what parse() builds
        bytes.fromhex(c["bits"]),
        c["nonce"],
    )


def _header_to_case(h: BlockHeader) -> dict:
    return {
        "version": h.version,
        "previous_block_hash": h.previous_block_hash.hex(),
        "merkle_root": h.merkle_root.hex(),
        "time": int(h.time.timestamp()),
        "bits": h.bits.hex(),
        "nonce": h.nonce,
    }


# --------------------------------------------------------------------------- #
# blocks: real mainnet ones only (see the module docstring)
# --------------------------------------------------------------------------- #

# name -> raw serialization (hex) of a real mainnet block; the sources are
# /repo/tests/block/_data/block_1.bin, block_170.bin and checkblock_valid.json
_REAL_BLOCKS_HEX: dict[str, str] = {
    "genesis": (
        "0100000000000000000000000000000000000000000000000000000000000000000000003ba3edfd7a7b12b27ac72c3e6776"
        "8f617fc81bc3888a51323a9fb8aa4b1e5e4a29ab5f49ffff001d1dac2b7c0101000000010000000000000000000000000000"
        "000000000000000000000000000000000000ffffffff4d04ffff001d0104455468652054696d65732030332f4a616e2f3230"
        "3039204368616e63656c6c6f72206f6e206272696e6b206f66207365636f6e64206261696c6f757420666f722062616e6b73"
        "ffffffff0100f2052a01000000434104678afdb0fe5548271967f1a67130b7105cd6a828e03909a67962e0ea1f61deb649f6"
        "bc3f4cef38c4f35504e51ec112de5c384df7ba0b8d578a4c702b6bf11d5fac00000000"
    ),
    "block_1": (
        "010000006fe28c0ab6f1b372c1a6a246ae63f74f931e8365e15a089c68d6190000000000982051fd1e4ba744bbbe680e1fee"
        "14677ba1a3c3540bf7b1cdb606e857233e0e61bc6649ffff001d01e362990101000000010000000000000000000000000000"
        "000000000000000000000000000000000000ffffffff0704ffff001d0104ffffffff0100f2052a0100000043410496b538e8"
        "53519c726a2c91e61ec11600ae1390813a627c66fb8be7947be63c52da7589379515d4e0a604f8141781e62294721166bf62"
        "1e73a82cbf2342c858eeac00000000"
    ),
    "block_170": (
        "0100000055bd840a78798ad0da853f68974f3d183e2bd1db6a842c1feecf222a00000000ff104ccb05421ab93e63f8c3ce5c"
        "2c2e9dbb37de2764b3a3175c8166562cac7d51b96a49ffff001d283e9e700201000000010000000000000000000000000000"
        "000000000000000000000000000000000000ffffffff0704ffff001d0102ffffffff0100f2052a01000000434104d46c4968"
        "bde02899d2aa0963367c7a6ce34eec332b32e42e5f3407e052d64ac625da6f0718e7b302140434bd725706957c092db53805"
        "b821a85b23a7ac61725bac000000000100000001c997a5e56e104102fa209c6a852dd90660a20b2d9c352423edce25857fcd"
        "3704000000004847304402204e45e16932b8af514961a1d3a1a25fdf3f4f7732e9d624c6c61548ab5fb8cd410220181522ec"
        "8eca07de4860a4acdd12909d831cc56cbbac4622082221a8768d1d0901ffffffff0200ca9a3b00000000434104ae1a62fe09"
        "c5f51b13905f07f06b99a2f7159b2225f374cd378d71302fa28414e7aab37397f554a7df5f142c21c1b7303b8a0626f1bade"
        "d5c72a704f7e6cd84cac00286bee0000000043410411db93e1dcdb8a016b49840f8c53bc1eb68a382e97b1482ecad7b148a6"
        "909a5cb2e0eaddfb84ccf9744464f82e160bfa9b8b64f9d4c03f999b8643f656b412a3ac00000000"
    ),
    "block_99960": (
        "01000000e78b20013e6e9a21b6366ead5d866b2f9dc00664508b90f24da8000000000000f94b61259c7e9af3455b27727580"
        "0d0d6a58b929eedf9e0153a6ef2278a5d53408d11a4d4c86041b0fbf10b00301000000010000000000000000000000000000"
        "000000000000000000000000000000000000ffffffff07044c86041b0119ffffffff0100f2052a0100000043410427e729f9"
        "cb5564abf2a1ccda596c636b77bd4d9d91f657d4738f3c70fce8ac4e12b1c782905554d9ff2c2e050fdfe3ff93c91c5817e6"
        "17877d51f450b528c9e4ac000000000100000001e853c9e0c133547fd9e162b1d3860dd0f27d5b9b8a7430d28896c00fbb3f"
        "1bc7000000008c49304602210095bcd54ebd0caa7cee75f0f89de472a765e6ef4b98c5fd4b32c7f9d4905db9ae022100ebd3"
        "f668e3a1a36d56e30184c27531dbb9fc136c84b1282be562064d86997d1e014104727eb4fdcc90658cd26abe7dcb0ae72978"
        "10b15b9e27c32bcf8e3edd934901968806dc18b1276d7273cc4c223feee0070361ed947888a3cef422bebfede96e08ffffff"
        "ff020065cd1d000000001976a91468c6c2b3c0bc4a8eeb10d16a300d627a31a3b58588ac0008af2f000000001976a9141d87"
        "f0a54a1d704ffc70eae83b025698bc0fdcfc88ac00000000010000000125f582f1d37b6713b14b85665a2daea4f464f5ed1c"
        "3ab3d4dcf152fb61414b9e000000008a473044022066ec12ced31659e1bf961b542b58bba76ba8f2a1e8f36d5f60be060159"
        "8eac21022047ce33685a63283a4c3ebc390261191f215999b2f7d8e1504b8af39aae4a2881014104c5e1d713d10fe59cc48f"
        "60701a3efcac418969c22e9c6cf57440f71e44dc82837af5351bf3e1d898f06aa5c792bf0251a39902311d1d27c16847b1b4"
        "14494f35ffffffff02404b4c00000000001976a91466a3b2e43cfa5c6d9b2f0095f7be5a5cb608478c88ac80b8dc3c030000"
        "001976a9146df5ed8cee34df5c05c90406761a11ed143c202d88ac00000000"
    ),
    "block_99993": (
        "01000000acda3db591d5c2c63e8c09e7523a5b0581707ef3e3520d6ca180000000000000701179cb9a9e0fe709cc96261b6b"
        "943b31362b61dacba94b03f9b71a06cc2eff7d1c1b4d4c86041b75962f880401000000010000000000000000000000000000"
        "000000000000000000000000000000000000ffffffff07044c86041b0152ffffffff014034152a01000000434104216220ab"
        "283b5e2871c332de670d163fb1b7e509fd67db77997c5568e7c25afd988f19cd5cc5aec6430866ec64b5214826b28e0f7a86"
        "458073ff933994b47a5cac0000000001000000042a40ae58b06c3a61ae55dbee05cab546e80c508f71f24ef0cdc9749dac91"
        "ea5f000000004a49304602210089c685b37903c4aa62d984929afeaca554d1641f9a668398cd228fb54588f06b0221008a5c"
        "fbc5b0a38ba78c4f4341e53272b9cd0e377b2fb740106009b8d7fa693f0b01ffffffff7b999491e30af112b11105cb053bc3"
        "633a8a87f44740eb158849a76891ff228b00000000494830450221009a4aa8663ff4017063d2020519f2eade5b4e3e30be69"
        "bf9a62b4e6472d1747b2022021ee3b3090b8ce439dbf08a5df31e2dc23d68073ebda45dc573e8a4f74f5cdfc01ffffffffde"
        "a82ec2f9e88e0241faa676c13d093030b17c479770c6cc83239436a4327d49000000004a493046022100c29d9de71a34707c"
        "52578e355fa0fdc2bb69ce0a957e6b591658a02b1e039d69022100f82c8af79c166a822d305f0832fb800786d831aea41906"
        "9b3aed97a6edf8f02101fffffffff3e7987da9981c2ae099f97a551783e1b21669ba0bf3aca8fe12896add91a11a00000000"
        "49483045022100e332c81781b281a3b35cf75a5a204a2be451746dad8147831255291ebac2604d02205f889a2935270d1bf1"
        "ef47db773d68c4d5c6a51bb51f082d3e1c491de63c345601ffffffff0100c817a8040000001976a91420420e56079150b50f"
        "b0617dce4c374bd61eccea88ac00000000010000000265a7293b2d69ba51d554cd32ac7586f7fbeaeea06835f26e03a2feab"
        "6aec375f000000004a493046022100922361eaafe316003087d355dd3c0ef3d9f44edae661c212a28a91e020408008022100"
        "c9b9c84d53d82c0ba9208f695c79eb42a453faea4d19706a8440e1d05e6cff7501fffffffff6971f00725d17c1c531088144"
        "b45ed795a307a22d51ca377c6f7f93675bb03a000000008b483045022100d060f2b2f4122edac61a25ea06396fe9135affda"
        "bc66d350b5ae1813bc6bf3f302205d8363deef2101fc9f3d528a8b3907e9d29c40772e587dcea12838c574cb80f801410449"
        "fce4a25c972a43a6bc67456407a0d4ced782d4cf8c0a35a130d5f65f0561e9f35198349a7c0b4ec79a15fead66bd7642f17c"
        "c8c40c5df95f15ac7190c76442ffffffff0200f2052a010000001976a914c3f537bc307c7eda43d86b55695e46047b770ea3"
        "88ac00cf7b05000000001976a91407bef290008c089a60321b21b1df2d7f2202f40388ac0000000001000000014ab7418ecd"
        "a2b2531eef0145d4644a4c82a7da1edd285d1aab1ec0595ac06b69000000008c493046022100a796490f89e0ef0326e8460e"
        "debff9161da19c36e00c7408608135f72ef0e03e0221009e01ef7bc17cddce8dfda1f1a6d3805c51f9ab2f8f2145793d8e85"
        "e0dd6e55300141043e6d26812f24a5a9485c9d40b8712215f0c3a37b0334d76b2c24fcafa587ae5258853b6f49ceeb29cd13"
        "ebb76aa79099fad84f516bbba47bd170576b121052f1ffffffff0200a24a04000000001976a9143542e17b6229a25d5b7690"
        "9f9d28dd6ed9295b2088ac003fab01000000001976a9149cea2b6e3e64ad982c99ebba56a882b9e8a816fe88ac00000000"
    ),
}

# big real blocks, referenced by file name when btclib's test data is at hand
_BLOCK_DATA_DIR = Path(btclib.__file__).resolve().parent.parent / "tests" / "block" / "_data"
_BIG_BLOCK_FILES = tuple(
    name for name in ("block_200000.bin", "block_481824_complete.bin") if (_BLOCK_DATA_DIR / name).is_file()
)


def _block_case_from_raw(raw: bytes) -> dict:
    # parse only to take the block apart into fields; build() puts it together
    # again through the constructors, with check_validity=True
    block = Block.parse(raw, check_validity=False)
    return {"header": _header_to_case(block.header), "transactions": [_tx_to_case(t) for t in block.transactions]}


@lru_cache(maxsize=None)
def _small_block_cases() -> tuple[str, ...]:
    # JSON text, so that the cached cases cannot be mutated by a caller
    return tuple(json.dumps(_block_case_from_raw(bytes.fromhex(h))) for h in _REAL_BLOCKS_HEX.values())


@lru_cache(maxsize=None)
def _file_block_case(name: str) -> str:
    if Path(name).name != name or name not in _BIG_BLOCK_FILES:
        raise ValueError(f"unknown block file: {name}")
    return json.dumps(_block_case_from_raw((_BLOCK_DATA_DIR / name).read_bytes()))


@lru_cache(maxsize=None)
def _file_block_facts(name: str) -> tuple[int, bool]:
    """(transaction count, is_segwit) of a big block."""
    txs = json.loads(_file_block_case(name))["transactions"]
    return len(txs), any(tx_case_is_segwit(t) for t in txs)


@st.composite
def block_case(draw: Any, big: bool = True) -> dict:
    """A real block: a structural case, or (1 draw in 16 each) a reference to a big one's file."""
    k = draw(st.integers(0, 15))
    if big and k < len(_BIG_BLOCK_FILES):
        return {"block_file": _BIG_BLOCK_FILES[k]}
    return json.loads(draw(st.sampled_from(_small_block_cases())))


def block_case_tx_count(c: dict) -> int:
    return _file_block_facts(c["block_file"])[0] if "block_file" in c else len(c["transactions"])


def block_case_is_segwit(c: dict) -> bool:
    """What Block.is_segwit answers for the block of a case."""
    if "block_file" in c:
        return _file_block_facts(c["block_file"])[1]
    return any(tx_case_is_segwit(t) for t in c["transactions"])


def build_block(c: dict) -> Block:
    if "block_file" in c:
        c = json.loads(_file_block_case(c["block_file"]))
    return Block(build_header(c["header"]), [B.tx(t) for t in c["transactions"]])


def _check_merkle_root_helper() -> None:
    """The embedded blocks agree with the library's own public merkle root helper."""
    for text in _small_block_cases():
        c = json.loads(text)
        root, mutated = merkle_root_and_mutated_from_transactions([B.tx(t) for t in c["transactions"]])
        assert not mutated and root.hex() == c["header"]["merkle_root"]


# --------------------------------------------------------------------------- #
# address.py: NetworkAddress, TimestampedNetworkAddress, Addr
# --------------------------------------------------------------------------- #

_IPS = [
    "::", "::1", "0.0.0.0", "127.0.0.1", "255.255.255.255", "10.0.0.1", "192.168.1.1",
    "::ffff:0.0.0.0", "::ffff:1.2.3.4", "::ffff:255.255.255.255", "::fffe:1.2.3.4", "::1.2.3.4",
    "2001:db8::1", "fe80::1", "fd87:d87e:eb43:102:304:506:708:90a", "fc00::1",
    "ffff:ffff:ffff:ffff:ffff:ffff:ffff:ffff", "64:ff9b::102:304", "2002:102:304::",
]  # fmt: skip


def ip() -> SearchStrategy[str]:
    """An ip as the constructor takes it: text (v4 or v6), or the sixteen octets as hex."""
    return st.one_of(
        st.sampled_from(_IPS),
        st.binary(min_size=16, max_size=16).map(bytes.hex),
        st.binary(min_size=4, max_size=4).map(lambda b: ".".join(str(o) for o in b)),
    )


def _ip_arg(s: str) -> str | bytes:
    # text contains '.' or ':'; 32 hex digits are the sixteen octets
    return s if ("." in s or ":" in s) else bytes.fromhex(s)


def port() -> SearchStrategy[int]:
    return uint(16, (8333, 8334, 18333, 38333))


@st.composite
def network_address_case(draw: Any) -> dict:
    return {"services": draw(services()), "ip": draw(ip()), "port": draw(port())}


def build_network_address(c: dict) -> p2p.NetworkAddress:
    return p2p.NetworkAddress(c["services"], _ip_arg(c["ip"]), c["port"])


@st.composite
def timestamped_network_address_case(draw: Any) -> dict:
    return {"timestamp": draw(timestamp_u32()), "address": draw(network_address_case())}


def build_timestamped_network_address(c: dict) -> p2p.TimestampedNetworkAddress:
    return p2p.TimestampedNetworkAddress(c["timestamp"], build_network_address(c["address"]))


@st.composite
def addr_case(draw: Any) -> dict:
    n = draw(count(1000))  # MAX_ADDR_TO_SEND
    return {"addresses": _draw_pool_list(draw, timestamped_network_address_case(), n)}


def build_addr(c: dict) -> p2p.Addr:
    return p2p.Addr([build_timestamped_network_address(a) for a in c["addresses"]])


# --------------------------------------------------------------------------- #
# addrv2.py: NetworkAddressV2, AddrV2, SendAddrV2
# --------------------------------------------------------------------------- #

# BIP155 id -> the one address length the id allows
_BIP155_SIZE = {1: 4, 2: 16, 3: 10, 4: 32, 5: 32, 6: 16, 7: 16}
_MAX_ADDRV2_SIZE = 512


@st.composite
def network_address_v2_case(draw: Any) -> dict:
    """A BIP155 entry: a known id with its exact length, or an unknown id with 0..512 octets."""
    if draw(st.integers(0, 3)) > 0:
        network_id = draw(st.sampled_from(sorted(_BIP155_SIZE)))
        size = _BIP155_SIZE[network_id]
        address = draw(
            st.one_of(st.binary(min_size=size, max_size=size), st.sampled_from([b"\x00" * size, b"\xff" * size]))
        ).hex()
    else:
        network_id = draw(st.one_of(st.sampled_from([0, 8, 9, 127, 128, 254, 255]), st.integers(8, 255)))
        address = draw(lengthy_hexbytes(_MAX_ADDRV2_SIZE))
    return {
        "timestamp": draw(timestamp_u32()),
        "services": draw(services(_COMPACT_SIZE_EDGES)),  # a CompactSize on the wire
        "network_id": network_id,
        "address": address,
        "port": draw(port()),
    }


def build_network_address_v2(c: dict) -> p2p.NetworkAddressV2:
    return p2p.NetworkAddressV2(c["timestamp"], c["services"], c["network_id"], bytes.fromhex(c["address"]), c["port"])


@st.composite
def addrv2_case(draw: Any) -> dict:
    n = draw(count(1000))
    return {"addresses": _draw_pool_list(draw, network_address_v2_case(), n)}


def build_addrv2(c: dict) -> p2p.AddrV2:
    return p2p.AddrV2([build_network_address_v2(a) for a in c["addresses"]])


def empty_case() -> SearchStrategy[dict]:
    """The case of a message with no fields."""
    return st.just({})


# --------------------------------------------------------------------------- #
# keepalive.py, negotiation.py, handshake.py
# --------------------------------------------------------------------------- #


@st.composite
def nonce_case(draw: Any) -> dict:
    return {"nonce": draw(uint(64))}


@st.composite
def feefilter_case(draw: Any) -> dict:
    return {"feerate": draw(sint(64, (1000, MAX_MONEY, MAX_MONEY + 1)))}


@st.composite
def version_case(draw: Any) -> dict:
    return {
        "version": draw(sint(32, (209, 31800, 60002, 70001, 70012, 70015, 70016))),
        "services": draw(services()),
        "timestamp": draw(sint(64, (2**31 - 1, 2**31, 2**32 - 1, 2**32))),
        "addr_recv": draw(network_address_case()),
        "addr_from": draw(network_address_case()),
        "nonce": draw(uint(64)),
        "user_agent": draw(
            st.one_of(
                st.sampled_from([b"", b"/Satoshi:27.0.0/", b"/btclib:2024/", b"\x00", b"\xff\xfe"]).map(bytes.hex),
                lengthy_hexbytes(256),  # MAX_SUBVERSION_LENGTH
            )
        ),
        "start_height": draw(sint(32, (800_000,))),
        "relay": draw(st.sampled_from([None, False, True])),  # absent (pre BIP37) / 0 / 1
    }


def build_version(c: dict) -> p2p.Version:
    return p2p.Version(
        c["version"],
        c["services"],
        c["timestamp"],
        build_network_address(c["addr_recv"]),
        build_network_address(c["addr_from"]),
        c["nonce"],
        bytes.fromhex(c["user_agent"]),
        c["start_height"],
        c["relay"],
    )


# --------------------------------------------------------------------------- #
# inventory.py
# --------------------------------------------------------------------------- #

_MSG_WITNESS_FLAG = 1 << 30
_INV_DEFINED = (0, 1, 2, 3, 4, 5, 1 | _MSG_WITNESS_FLAG, 2 | _MSG_WITNESS_FLAG)
# undefined: the next free code, BIP144's witness filtered block (dropped by Core), the bare flag, the extremes
_INV_UNDEFINED = (6, 7, 3 | _MSG_WITNESS_FLAG, 5 | _MSG_WITNESS_FLAG, _MSG_WITNESS_FLAG, 1 << 31, 2**32 - 2, 2**32 - 1)


def inventory_type() -> SearchStrategy[int]:
    return st.one_of(
        st.sampled_from(_INV_DEFINED), st.sampled_from(_INV_DEFINED), st.sampled_from(_INV_UNDEFINED), uint(32)
    )


@st.composite
def inventory_case(draw: Any) -> dict:
    return {"type_code": draw(inventory_type()), "hash": draw(h32())}


def build_inventory(c: dict) -> p2p.Inventory:
    return p2p.Inventory(c["type_code"], bytes.fromhex(c["hash"]))


@st.composite
def inventory_vector_case(draw: Any) -> dict:
    n = draw(count(50000))  # MAX_INV_SZ
    if n <= _SMALL:
        return {"items": [draw(inventory_case()) for _ in range(n)]}
    types = [draw(inventory_type()) for _ in range(draw(st.integers(1, 4)))]
    hashes = _hash_run(draw(h32()), n)
    return {"items": [{"type_code": types[i % len(types)], "hash": hashes[i]} for i in range(n)]}


def _build_inventory_vector(cls: type) -> Callable[[dict], Any]:
    def build(c: dict) -> Any:
        return cls([build_inventory(i) for i in c["items"]])

    return build


@st.composite
def locator_case(draw: Any) -> dict:
    n = draw(count(101, few=12))  # MAX_LOCATOR_SZ: no CompactSize crossing is reachable
    return {
        "version": draw(sint(32, (70015, 70016))),
        "locator": _draw_hashes(draw, n),
        "hash_stop": draw(h32()),
    }


def _build_locator(cls: type) -> Callable[[dict], Any]:
    def build(c: dict) -> Any:
        return cls(c["version"], [bytes.fromhex(h) for h in c["locator"]], bytes.fromhex(c["hash_stop"]))

    return build


@st.composite
def headers_case(draw: Any) -> dict:
    n = draw(count(2000))  # MAX_HEADERS_RESULTS
    return {"headers": _draw_pool_list(draw, header_case(), n)}


def build_headers(c: dict) -> p2p.Headers:
    return p2p.Headers([build_header(h) for h in c["headers"]])


# --------------------------------------------------------------------------- #
# block_filters.py
# --------------------------------------------------------------------------- #


def filter_type() -> SearchStrategy[int]:
    """BASIC (0), or a type BIP158 does not define: the classes take any octet."""
    return st.one_of(st.just(0), st.just(0), st.sampled_from([1, 2, 127, 128, 254, 255]), st.integers(0, 255))


@st.composite
def filter_range_request_case(draw: Any) -> dict:
    return {
        "filter_type": draw(filter_type()),
        "start_height": draw(uint(32, (999, 1000, 1999, 2000))),
        "stop_hash": draw(h32()),
    }


def _build_filter_range_request(cls: type) -> Callable[[dict], Any]:
    def build(c: dict) -> Any:
        return cls(c["filter_type"], c["start_height"], bytes.fromhex(c["stop_hash"]))

    return build


@st.composite
def cfilter_case(draw: Any) -> dict:
    return {
        "filter_type": draw(filter_type()),
        "block_hash": draw(h32()),
        # opaque to the class (no GCS decoding in assert_valid): any octets, lengths up to past 0xffff
        "filter_bytes": draw(st.one_of(st.sampled_from(["", "00", "019dfca8"]), lengthy_hexbytes(70000))),
    }


def build_cfilter(c: dict) -> p2p.CFilter:
    return p2p.CFilter(c["filter_type"], bytes.fromhex(c["block_hash"]), bytes.fromhex(c["filter_bytes"]))


@st.composite
def cfheaders_case(draw: Any) -> dict:
    n = draw(count(2000))  # MAX_GETCFHEADERS_SIZE
    return {
        "filter_type": draw(filter_type()),
        "stop_hash": draw(h32()),
        "previous_filter_header": draw(h32()),
        "filter_hashes": _draw_hashes(draw, n),
    }


def build_cfheaders(c: dict) -> p2p.CFHeaders:
    return p2p.CFHeaders(
        c["filter_type"],
        bytes.fromhex(c["stop_hash"]),
        bytes.fromhex(c["previous_filter_header"]),
        [bytes.fromhex(h) for h in c["filter_hashes"]],
    )


@st.composite
def getcfcheckpt_case(draw: Any) -> dict:
    return {"filter_type": draw(filter_type()), "stop_hash": draw(h32())}


def build_getcfcheckpt(c: dict) -> p2p.GetCFCheckpt:
    return p2p.GetCFCheckpt(c["filter_type"], bytes.fromhex(c["stop_hash"]))


@st.composite
def cfcheckpt_case(draw: Any) -> dict:
    n = draw(count(300))  # the class has no bound of its own (var_int's 2**25 is parse's); capped here
    return {"filter_type": draw(filter_type()), "stop_hash": draw(h32()), "filter_headers": _draw_hashes(draw, n)}


def build_cfcheckpt(c: dict) -> p2p.CFCheckpt:
    return p2p.CFCheckpt(c["filter_type"], bytes.fromhex(c["stop_hash"]), [bytes.fromhex(h) for h in c["filter_headers"]])


# --------------------------------------------------------------------------- #
# compact_blocks.py
# --------------------------------------------------------------------------- #

_MAX_BLOCK_TX_INDEX = 0xFFFF
_MAX_SHORT_ID = (1 << 48) - 1


@st.composite
def sendcmpct_case(draw: Any) -> dict:
    return {"announce": draw(st.booleans()), "version": draw(st.one_of(st.sampled_from([1, 2, 2, 3]), uint(64)))}


def build_sendcmpct(c: dict) -> p2p.SendCmpct:
    return p2p.SendCmpct(c["announce"], c["version"])


def tx_index() -> SearchStrategy[int]:
    """A BIP152 index (uint16), CompactSize boundaries of its differential encoding among the edges."""
    return uint(16, (0xFC, 0xFD, 0xFE, 0xFF, 0x100))


@st.composite
def prefilled_transaction_case(draw: Any) -> dict:
    # alone, serialize()/parse() default to "no previous index": the difference is the index itself
    return {"index": draw(tx_index()), "tx": draw(valid_tx_case())}


def build_prefilled_transaction(c: dict) -> p2p.PrefilledTransaction:
    return p2p.PrefilledTransaction(c["index"], B.tx(c["tx"]))


@st.composite
def cmpctblock_case(draw: Any) -> dict:
    """A compact block whose prefilled indexes are strictly increasing and inside the block.

    Construction, not rejection: with s short ids and p prefilled transactions the
    block has s + p transactions; each prefilled index is previous + 1 + gap, the
    gaps (the numbers BIP152 puts on the wire) being drawn so that they sum to at
    most s, hence last index <= p - 1 + s < s + p. s + p <= 65535 holds by far.
    """
    n_short = draw(count(_MAX_BLOCK_TX_INDEX))
    if n_short <= _SMALL:
        short_ids = [draw(uint(48)) for _ in range(n_short)]
    else:
        base, step = draw(uint(48)), draw(st.sampled_from([0, 1, 1, 0x10001, (1 << 40) + 1]))
        short_ids = [(base + i * step) % (_MAX_SHORT_ID + 1) for i in range(n_short)]  # step 0: duplicates are valid

    if draw(st.integers(0, 29)) == 0:
        n_pre = draw(st.sampled_from([252, 253, 254]))  # rarely: the prefilled count crosses 0xfd
        txs = _cycle([draw(valid_tx_case(max_in=1, max_out=1)) for _ in range(2)], n_pre)
    else:
        n_pre = draw(st.sampled_from([0, 1, 1, 1, 2, 3]))
        txs = [draw(valid_tx_case(coinbase=True if (k == 0 and draw(st.booleans())) else None)) for k in range(n_pre)]

    remaining = n_short
    previous = -1
    prefilled = []
    for k, tx in enumerate(txs):
        if k < 4 or n_pre <= _SMALL:
            gap = draw(st.one_of(st.just(0), st.sampled_from([0, remaining]), st.integers(0, remaining)))
        else:
            gap = 1 if (remaining and k % 3 == 0) else 0
        remaining -= gap
        previous = previous + 1 + gap
        prefilled.append({"index": previous, "tx": tx})
    return {"header": draw(header_case()), "nonce": draw(uint(64)), "short_ids": short_ids, "prefilled_txns": prefilled}


def build_cmpctblock(c: dict) -> p2p.CmpctBlock:
    return p2p.CmpctBlock(
        build_header(c["header"]),
        c["nonce"],
        c["short_ids"],
        [build_prefilled_transaction(t) for t in c["prefilled_txns"]],
    )


@st.composite
def getblocktxn_case(draw: Any) -> dict:
    """Strictly increasing uint16 indexes: dense runs (difference 0), sparse ones, the extremes."""
    mode = draw(st.sampled_from(["edges", "dense", "sparse", "sparse", "mixed"]))
    if mode == "edges":
        indexes = draw(
            st.sampled_from([[], [0], [1], [0xFFFF], [0, 0xFFFF], [0xFFFE, 0xFFFF], [0xFC], [0xFD], [0, 0xFE], [0, 1, 2, 0x100]])
        )
    elif mode == "dense":
        n = draw(count(_MAX_BLOCK_TX_INDEX))
        last_start = _MAX_BLOCK_TX_INDEX + 1 - max(n, 1)  # the run ends at 0xffff when it starts here
        start = draw(st.one_of(st.sampled_from([0, last_start]), st.integers(0, last_start)))
        indexes = list(range(start, start + n))
    elif mode == "sparse":
        n = draw(count(_MAX_BLOCK_TX_INDEX, big=False))
        indexes = sorted(draw(st.lists(tx_index(), min_size=n, max_size=n, unique=True)))
    else:
        # many indexes with drawn gaps: previous + 1 + gap, the gap bounded by the room left for the rest
        n = draw(count(_MAX_BLOCK_TX_INDEX))
        indexes, previous = [], -1
        gaps = [draw(st.sampled_from([0, 0, 1, 2, 0xFC, 0xFD, 0xFE])) for _ in range(min(n, 6))]
        for k in range(n):
            room = _MAX_BLOCK_TX_INDEX - (previous + 1) - (n - 1 - k)  # largest gap leaving n-1-k indexes after
            gap = min(gaps[k % len(gaps)], room)
            previous = previous + 1 + gap
            indexes.append(previous)
    return {"block_hash": draw(h32()), "indexes": indexes}


def build_getblocktxn(c: dict) -> p2p.GetBlockTxn:
    return p2p.GetBlockTxn(bytes.fromhex(c["block_hash"]), c["indexes"])


@st.composite
def blocktxn_case(draw: Any) -> dict:
    if draw(st.integers(0, 19)) == 0:
        n = draw(st.sampled_from([252, 253, 254, 300]))  # rarely, and of minimal transactions
        txs = _cycle([draw(valid_tx_case(max_in=1, max_out=1)) for _ in range(2)], n)
    else:
        n = draw(st.sampled_from([0, 0, 1, 1, 1, 2, 2, 3, 4]))
        txs = [draw(valid_tx_case()) for _ in range(n)]
    return {"block_hash": draw(h32()), "transactions": txs}


def build_blocktxn(c: dict) -> p2p.BlockTxn:
    return p2p.BlockTxn(bytes.fromhex(c["block_hash"]), [B.tx(t) for t in c["transactions"]])


# --------------------------------------------------------------------------- #
# data.py: TxPayload, BlockPayload
# --------------------------------------------------------------------------- #


@st.composite
def txpayload_case(draw: Any, exact_only: bool = False) -> dict:
    tx = draw(valid_tx_case())
    include_witness = tx_case_is_segwit(tx) if exact_only else draw(st.booleans())
    return {"tx": tx, "include_witness": include_witness}


def build_txpayload(c: dict) -> p2p.TxPayload:
    return p2p.TxPayload(B.tx(c["tx"]), c["include_witness"])


@st.composite
def blockpayload_case(draw: Any, exact_only: bool = False, big: bool = True) -> dict:
    block = draw(block_case(big=big))
    include_witness = block_case_is_segwit(block) if exact_only else draw(st.booleans())
    return {"block": block, "include_witness": include_witness}


def build_blockpayload(c: dict) -> p2p.BlockPayload:
    return p2p.BlockPayload(build_block(c["block"]), c["include_witness"])


# --------------------------------------------------------------------------- #
# message.py: the envelope
# --------------------------------------------------------------------------- #

_COMMANDS = sorted(
    {cls.command for cls in vars(p2p).values() if isinstance(cls, type) and isinstance(getattr(cls, "command", None), str)}
)
_MAGICS = ["f9beb4d9", "0b110907", "1c163f28", "fabfb5da", "0a03cf40", "00000000", "ffffffff", "00000001"]


@st.composite
def message_case(draw: Any) -> dict:
    """Four octets of magic, a command of 0..12 printable ascii characters, an opaque payload."""
    command = draw(
        st.one_of(
            st.sampled_from(_COMMANDS),  # "getcfcheckpt" fills the twelve octets
            st.sampled_from(["", " ", "~", "a", "x" * 11, "x" * 12, "            ", "a b", "unknown", "VERSION"]),
            st.text(alphabet=st.characters(min_codepoint=0x20, max_codepoint=0x7E), max_size=12),
        )
    )
    return {
        "magic": draw(st.one_of(st.sampled_from(_MAGICS), st.binary(min_size=4, max_size=4).map(bytes.hex))),
        "command": command,
        "payload": draw(lengthy_hexbytes(70000, small=64)),  # the bound is 4,000,000: not approached
    }


def build_message(c: dict) -> p2p.Message:
    return p2p.Message(bytes.fromhex(c["magic"]), c["command"], bytes.fromhex(c["payload"]))


# --------------------------------------------------------------------------- #
# the tables
# --------------------------------------------------------------------------- #


def _build_empty(cls: type) -> Callable[[dict], Any]:
    def build(c: dict) -> Any:
        return cls()

    return build


def _build_nonce(cls: type) -> Callable[[dict], Any]:
    def build(c: dict) -> Any:
        return cls(c["nonce"])

    return build


def build_feefilter(c: dict) -> p2p.FeeFilter:
    return p2p.FeeFilter(c["feerate"])


Strategy = Callable[[], SearchStrategy[dict]]
Build = Callable[[dict], object]

PAYLOADS: dict[str, tuple[Strategy, Build]] = {
    # the Payload subclasses
    "Addr": (addr_case, build_addr),
    "AddrV2": (addrv2_case, build_addrv2),
    "BlockPayload": (blockpayload_case, build_blockpayload),
    "BlockTxn": (blocktxn_case, build_blocktxn),
    "CFCheckpt": (cfcheckpt_case, build_cfcheckpt),
    "CFHeaders": (cfheaders_case, build_cfheaders),
    "CFilter": (cfilter_case, build_cfilter),
    "CmpctBlock": (cmpctblock_case, build_cmpctblock),
    "FeeFilter": (feefilter_case, build_feefilter),
    "GetAddr": (empty_case, _build_empty(p2p.GetAddr)),
    "GetBlockTxn": (getblocktxn_case, build_getblocktxn),
    "GetBlocks": (locator_case, _build_locator(p2p.GetBlocks)),
    "GetCFCheckpt": (getcfcheckpt_case, build_getcfcheckpt),
    "GetCFHeaders": (filter_range_request_case, _build_filter_range_request(p2p.GetCFHeaders)),
    "GetCFilters": (filter_range_request_case, _build_filter_range_request(p2p.GetCFilters)),
    "GetData": (inventory_vector_case, _build_inventory_vector(p2p.GetData)),
    "GetHeaders": (locator_case, _build_locator(p2p.GetHeaders)),
    "Headers": (headers_case, build_headers),
    "Inv": (inventory_vector_case, _build_inventory_vector(p2p.Inv)),
    "Mempool": (empty_case, _build_empty(p2p.Mempool)),
    "NotFound": (inventory_vector_case, _build_inventory_vector(p2p.NotFound)),
    "Ping": (nonce_case, _build_nonce(p2p.Ping)),
    "Pong": (nonce_case, _build_nonce(p2p.Pong)),
    "SendAddrV2": (empty_case, _build_empty(p2p.SendAddrV2)),
    "SendCmpct": (sendcmpct_case, build_sendcmpct),
    "SendHeaders": (empty_case, _build_empty(p2p.SendHeaders)),
    "TxPayload": (txpayload_case, build_txpayload),
    "Verack": (empty_case, _build_empty(p2p.Verack)),
    "Version": (version_case, build_version),
    "WtxidRelay": (empty_case, _build_empty(p2p.WtxidRelay)),
    # the building blocks with a parse/serialize of their own, and the envelope
    "Inventory": (inventory_case, build_inventory),
    "NetworkAddress": (network_address_case, build_network_address),
    "TimestampedNetworkAddress": (timestamped_network_address_case, build_timestamped_network_address),
    "NetworkAddressV2": (network_address_v2_case, build_network_address_v2),
    "PrefilledTransaction": (prefilled_transaction_case, build_prefilled_transaction),
    "Message": (message_case, build_message),
}

CLASSES: dict[str, type] = {name: getattr(p2p, name) for name in PAYLOADS}

# the main vector length of a case, for the classes that have one
COUNT_OF: dict[str, Callable[[dict], int]] = {
    "Addr": lambda c: len(c["addresses"]),
    "AddrV2": lambda c: len(c["addresses"]),
    "BlockPayload": lambda c: block_case_tx_count(c["block"]),
    "BlockTxn": lambda c: len(c["transactions"]),
    "CFCheckpt": lambda c: len(c["filter_headers"]),
    "CFHeaders": lambda c: len(c["filter_hashes"]),
    "CFilter": lambda c: len(c["filter_bytes"]) // 2,
    "CmpctBlock": lambda c: max(len(c["short_ids"]), len(c["prefilled_txns"])),
    "GetBlockTxn": lambda c: len(c["indexes"]),
    "GetBlocks": lambda c: len(c["locator"]),
    "GetData": lambda c: len(c["items"]),
    "GetHeaders": lambda c: len(c["locator"]),
    "Headers": lambda c: len(c["headers"]),
    "Inv": lambda c: len(c["items"]),
    "NotFound": lambda c: len(c["items"]),
    "Version": lambda c: len(c["user_agent"]) // 2,
    "NetworkAddressV2": lambda c: len(c["address"]) // 2,
    "Message": lambda c: len(c["payload"]) // 2,
}


def _txpayload_is_lossy(c: dict) -> bool:
    return c["include_witness"] != tx_case_is_segwit(c["tx"])


def _blockpayload_is_lossy(c: dict) -> bool:
    return c["include_witness"] != block_case_is_segwit(c["block"])


# valid objects that btclib documents as not coming back equal from parse(serialize())
# (btclib/p2p/data.py: "parse answers the flag from the object it just built"):
#  - include_witness=True over a transaction/block without witnesses parses back as False;
#  - include_witness=False over one with witnesses parses back as the stripped one.
# parse(b).serialize() == b is still expected of them.
LOSSY: dict[str, Callable[[dict], bool]] = {
    "TxPayload": _txpayload_is_lossy,
    "BlockPayload": _blockpayload_is_lossy,
}

# the same table with the two strategies above restricted, by construction, to the
# objects whose round trip is exact (the flag agrees with the witnesses)
PAYLOADS_EXACT: dict[str, tuple[Strategy, Build]] = {
    **PAYLOADS,
    "TxPayload": (lambda: txpayload_case(exact_only=True), build_txpayload),
    "BlockPayload": (lambda: blockpayload_case(exact_only=True), build_blockpayload),
}


# --------------------------------------------------------------------------- #
# self-test
# --------------------------------------------------------------------------- #

if __name__ == "__main__":
    import sys
    import time

    from hypothesis import HealthCheck, given, seed, settings

    N_EXAMPLES = 200

    def _run(name: str, factory: Strategy, build: Build) -> dict:
        cls = CLASSES[name]
        stats: dict[str, Any] = {
            "n": 0, "ser": set(), "min": None, "max": None, "count": None,
            "fail_expected": [], "fail_unexpected": [], "errors": [],
        }  # fmt: skip

        @seed(1)
        @settings(max_examples=N_EXAMPLES, database=None, deadline=None, suppress_health_check=list(HealthCheck))
        @given(factory())
        def one(case: dict) -> None:
            stats["n"] += 1
            text = json.dumps(case)  # the case is pure JSON...
            assert json.loads(text) == case  # ...and survives a replay file
            try:
                obj = build(case)  # check_validity=True: the library vouches for it
                assert type(obj) is cls
                assert build(case) == obj  # deterministic
                b = obj.serialize()
                obj2 = cls.parse(b)
                objects_equal = obj2 == obj
                bytes_equal = obj2.serialize() == b
            except Exception as e:  # a sound generator never gets here
                stats["errors"].append((f"{type(e).__name__}: {e}", text))
                return
            stats["ser"].add(b)
            stats["min"] = len(b) if stats["min"] is None else min(stats["min"], len(b))
            stats["max"] = len(b) if stats["max"] is None else max(stats["max"], len(b))
            if name in COUNT_OF:
                stats["count"] = max(stats["count"] or 0, COUNT_OF[name](case))
            if not (objects_equal and bytes_equal):
                lossy = name in LOSSY and LOSSY[name](case)
                what = ("objects differ" if not objects_equal else "") + (" bytes differ" if not bytes_equal else "")
                key = "fail_expected" if (lossy and bytes_equal) else "fail_unexpected"
                stats[key].append((what.strip(), text))
            elif name in LOSSY and LOSSY[name](case):
                stats["fail_unexpected"].append(("predicted lossy, but round-tripped", text))

        one()
        return stats

    def _short(text: str, limit: int = 600) -> str:
        return text if len(text) <= limit else text[:limit] + f"... ({len(text)} chars)"

    _check_merkle_root_helper()
    print(f"big block files available: {list(_BIG_BLOCK_FILES)}")
    print(f"{'class':28} {'examples':>8} {'distinct':>8} {'minlen':>7} {'maxlen':>8} {'maxcount':>8}  result")
    bad = 0
    t_all = time.time()
    for table_name, table in (("PAYLOADS", PAYLOADS), ("PAYLOADS_EXACT", {k: PAYLOADS_EXACT[k] for k in LOSSY})):
        print(f"--- {table_name}")
        for name_, (factory_, build_) in table.items():
            t0 = time.time()
            s = _run(name_, factory_, build_)
            result = "ok"
            if s["fail_expected"]:
                result = f"ok + {len(s['fail_expected'])} documented-lossy object round trips (bytes round trip holds)"
            if s["fail_unexpected"] or s["errors"]:
                bad += 1
                result = f"FAIL: {len(s['fail_unexpected'])} round-trip failures, {len(s['errors'])} build/parse errors"
            print(
                f"{name_:28} {s['n']:8d} {len(s['ser']):8d} {s['min']!s:>7} {s['max']!s:>8} "
                f"{'-' if s['count'] is None else s['count']!s:>8}  {result}  [{time.time() - t0:.1f}s]"
            )
            for key in ("fail_unexpected", "errors"):
                for what_, text_ in sorted(s[key], key=lambda p: len(p[1]))[:3]:
                    print(f"    {key}: {what_}\n      case: {_short(text_)}")
            if s["fail_expected"]:
                what_, text_ = min(s["fail_expected"], key=lambda p: len(p[1]))
                print(f"    smallest documented-lossy case ({what_}): {_short(text_, 400)}")
    print(f"total {time.time() - t_all:.1f}s; classes with unexpected failures: {bad}")
    sys.exit(1 if bad else 0)
