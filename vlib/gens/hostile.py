"""Hostile-input machinery for C19: stacked, boundary-biased mutations of bytes, text and JSON trees.

Everything here is a pure function of JSON-able *mutation specs* (drawn by Hypothesis as small dicts of ints),
so a failing case replays and shrinks. No btclib import: the seeds to mutate are built elsewhere.

    apply_bytes(data, muts, other)  -> bytes
    apply_text(text, muts, other)   -> str
    apply_json(tree, muts)          -> JSON value (a deep copy, mutated)
"""

from __future__ import annotations

import copy
import json

from hypothesis import strategies as st

MAX_LEN = 1 << 17  # bytes / characters: a mutated input never grows past this

# ---------------------------------------------------------------------------------------------- bytes
BYTE_EDGES = (0, 1, 0x4B, 0x4C, 0x4D, 0x4E, 0x7F, 0x80, 0xFC, 0xFD, 0xFE, 0xFF, 2, 3, 0x10, 0x20, 0x21, 0x40, 0x41, 0x50, 0xC0, 0xC1)
CS_VALUES = (0, 1, 0xFC, 0xFD, 0xFFFF, 0x10000, 2**32 - 1, 2**32, 2**64 - 1, 2, 0xFE, 0xFF, 0x100, 0x02000000, 0x02000001, 2**31, 2**63, 2**63 - 1)
U16_EDGES = (0, 1, 0x7FFF, 0x8000, 0xFFFF, 0x00FD, 0x0100)
U32_EDGES = (0, 1, 2, 0x7FFFFFFF, 0x80000000, 0xFFFFFFFE, 0xFFFFFFFF, 0x00FFFFFF, 0x01000000, 500_000_000, 0x40000000)
U64_EDGES = (0, 1, 2**63 - 1, 2**63, 2**64 - 1, 2**32, 21_000_000 * 10**8, 21_000_000 * 10**8 + 1, 2**53)
BYTE_OPS = ("set", "set", "set", "flip", "flip", "incr", "decr", "cs", "cs", "cs_nm", "u16", "u32", "u32be", "u64", "trunc", "trunc_tail", "append", "del", "dup", "splice", "splice_in", "insert", "incr", "decr", "fill", "swap",
            "set", "flip", "cs", "del", "insert", "dup")
# how many of the drawn mutations one attempt applies (selected by spare bits of the attempt): mostly one or two, so that what
# gets past the first field is common, up to six stacked
COUNTS = (1, 1, 1, 2, 1, 2, 3, 1, 2, 4, 6, 3)


def compact_size(n: int, width: int | None = None) -> bytes:
    """CompactSize of n; a forced width (3, 5, 9) gives the non-minimal spelling when n fits."""
    if width is None:
        width = 1 if n < 0xFD else 3 if n <= 0xFFFF else 5 if n <= 0xFFFFFFFF else 9
    if width == 1:
        return bytes([n & 0xFF if n < 0xFD else 0xFC])
    size = {3: 2, 5: 4, 9: 8}[width]
    return bytes([{3: 0xFD, 5: 0xFE, 9: 0xFF}[width]]) + (n % (1 << (8 * size))).to_bytes(size, "little")


def _pos(data, pos: int, mode: int, span: int = 0) -> int:
    """A position in [0, len-span] chosen by mode: 0 uniform, 1 a small non-zero byte (length/count/opcode-like),
    2 the head, 3 the tail, 4 a 0xfd/0xfe/0xff byte or uniform."""
    n = len(data)
    hi = max(n - span, 0)
    if hi == 0:
        return 0
    if mode == 1:
        cand = [i for i in range(min(n, 4096)) if 0 < data[i] <= 0x50 and i <= hi]
        if cand:
            return cand[pos % len(cand)]
    elif mode == 2:
        return pos % min(hi + 1, 12)
    elif mode == 3:
        return hi - pos % min(hi + 1, 12)
    elif mode == 4:
        cand = [i for i in range(min(n, 4096)) if data[i] >= 0xFD and i <= hi]
        if cand:
            return cand[pos % len(cand)]
    return pos % (hi + 1)


_MODES = (0, 0, 1, 1, 1, 2, 3, 4)


def unpack(x, ops, modes=_MODES) -> dict:
    """A mutation spec drawn as ONE integer (cheap to draw, shrinks towards 'set byte 0 to 0'), unpacked into its fields:
    op = x % len(ops); then 3 bits of mode, 8 of val, 8 of n, 20 of pos."""
    if isinstance(x, dict):
        return x
    op = ops[x % len(ops)]
    x //= len(ops)
    return {"op": op, "mode": modes[x & 7], "val": (x >> 3) & 0xFF, "n": (x >> 11) & 0xFF, "pos": (x >> 19) & 0xFFFFF}


PACKED_MAX = 32 * (1 << 39) - 1


def apply_byte_mut(data: bytes, m, other: bytes = b"") -> bytes:
    m = unpack(m, BYTE_OPS)
    op, pos, val, k, mode = m["op"], m["pos"], m["val"], m["n"], m.get("mode", 0)
    n = len(data)
    if op == "trunc":
        return data[: _pos(data, pos, mode)]
    if op == "trunc_tail":
        return data[: max(n - 1 - k % 9, 0)]
    if op == "append":
        tail = bytes([BYTE_EDGES[val % len(BYTE_EDGES)]]) * (1 + k % 40)
        return data + tail
    if op == "splice":  # head of this one, tail of the other one
        i = _pos(data, pos, mode)
        j = val % (len(other) + 1)
        return data[:i] + other[j:]
    if op == "splice_in":  # a slice of the other one dropped in the middle
        i = _pos(data, pos, mode)
        j = val % (len(other) + 1)
        return data[:i] + other[j : j + 1 + k % 64] + data[i:]
    if op == "insert":
        i = _pos(data, pos, mode)
        return data[:i] + bytes([BYTE_EDGES[val % len(BYTE_EDGES)]]) * (1 + k % 9) + data[i:]
    if n == 0:
        return data
    if op == "set":
        i = _pos(data, pos, mode, 1)
        return data[:i] + bytes([BYTE_EDGES[val % len(BYTE_EDGES)]]) + data[i + 1 :]
    if op == "flip":
        i = _pos(data, pos, mode, 1)
        return data[:i] + bytes([data[i] ^ (1 << (val % 8))]) + data[i + 1 :]
    if op == "incr":
        i = _pos(data, pos, mode, 1)
        return data[:i] + bytes([(data[i] + 1 + k % 2) & 0xFF]) + data[i + 1 :]
    if op == "decr":
        i = _pos(data, pos, mode, 1)
        return data[:i] + bytes([(data[i] - 1 - k % 2) & 0xFF]) + data[i + 1 :]
    if op in ("cs", "cs_nm"):
        # a CompactSize written over the position: it replaces the CompactSize that seems to be there
        i = _pos(data, pos, mode, 1)
        old = {0xFD: 3, 0xFE: 5, 0xFF: 9}.get(data[i], 1)
        v = CS_VALUES[val % len(CS_VALUES)]
        if op == "cs":
            new = compact_size(v)
        else:
            widths = [w for w in (3, 5, 9) if v < (1 << (8 * {3: 2, 5: 4, 9: 8}[w]))]
            if v >= 0xFD:
                widths = [w for w in widths if w > len(compact_size(v))] or [9]
            new = compact_size(v if k % 3 else data[i], widths[k % len(widths)])
        return data[:i] + new + data[i + old :]
    if op == "u16":
        i = _pos(data, pos, mode, 2)
        return data[:i] + U16_EDGES[val % len(U16_EDGES)].to_bytes(2, "little" if k % 2 else "big") + data[i + 2 :]
    if op == "u32":
        i = _pos(data, pos, mode, 4)
        return data[:i] + U32_EDGES[val % len(U32_EDGES)].to_bytes(4, "little") + data[i + 4 :]
    if op == "u32be":
        i = _pos(data, pos, mode, 4)
        return data[:i] + U32_EDGES[val % len(U32_EDGES)].to_bytes(4, "big") + data[i + 4 :]
    if op == "u64":
        i = _pos(data, pos, mode, 8)
        return data[:i] + U64_EDGES[val % len(U64_EDGES)].to_bytes(8, "little") + data[i + 8 :]
    if op == "del":
        i = _pos(data, pos, mode, 1)
        return data[:i] + data[i + 1 + k % 40 :]
    if op == "dup":
        i = _pos(data, pos, mode, 1)
        seg = data[i : i + 1 + k % 80]
        reps = (1, 1, 1, 2, 3, 8, 253, 1000)[val % 8]
        if len(seg) * reps + n > MAX_LEN:
            reps = 1
        return data[:i] + seg * reps + data[i:]
    if op == "fill":
        i = _pos(data, pos, mode, 1)
        ln = min(1 + k % 40, n - i)
        return data[:i] + bytes([BYTE_EDGES[val % len(BYTE_EDGES)]]) * ln + data[i + ln :]
    if op == "swap":
        i = _pos(data, pos, mode, 2)
        j = (i + 1 + k % 40) % n
        b = bytearray(data)
        b[i], b[j] = b[j], b[i]
        return bytes(b)
    return data


def apply_bytes(data: bytes, muts: list, other: bytes = b"") -> bytes:
    for m in muts:
        data = apply_byte_mut(data, m, other)
        if len(data) > MAX_LEN:
            data = data[:MAX_LEN]
    return data


def byte_mut():
    return st.integers(0, PACKED_MAX)


def byte_muts(min_size: int = 0, max_size: int = 6):
    return st.lists(byte_mut(), min_size=min_size, max_size=max_size)


# ---------------------------------------------------------------------------------------------- text
# characters chosen for what they do to parsers: separators of the grammars, control and format characters, lone
# surrogates (not encodable), case mappings that change length (U+0130 lowers to two code points, U+00DF uppers to "SS"),
# digits of other scripts (str.isdigit / int() accept them), ideographic space (str.split / NFKD treat it as a space)
CHAR_EDGES = (
    "\x00", " ", "\n", "\t", "\r", "\x7f", "\x80", "\xa0", "\xad", "\xdf", "\u0130", "\u0131", "\u017f", "\u0301", "\u0660", "\u0969", "\u200b", "\u200d", "\u202e", "\u2028",
    "\u3000", "\uff11", "\uff21", "\ufeff", "\ufffd", "\ud800", "\udfff", "\U0001f600", "\U0001d7d8", "\U000e0041",
    "(", ")", "[", "]", "{", "}", "<", ">", ",", ";", "/", "\\", "'", '"', "h", "H", "*", "#", "@", ":", "=", "%", "+", "-", "?", "&", ".", "_", "~", "!", "|", "^", "$", "`",
    "0", "1", "9", "a", "f", "g", "z", "A", "F", "Z", "l", "I", "O", "b", "i", "o", "q", "p", "x",
)
NUM_EDGES = ("0", "00", "01", "-0", "-1", "+1", "1", "2147483647", "2147483648", "4294967295", "4294967296", "18446744073709551616", "1" + "0" * 30, "9" * 400, "9" * 5000,
             "1e5", "1.0", "0x10", "1_0", " 1", "\u0661", "\uff11\uff12", "1h", "1'", "1H", "1hh", "h", "")
TEXT_OPS = ("set", "set", "insert", "del", "dup", "dup_big", "trunc", "append", "splice", "splice_in", "upper", "lower", "swapcase", "num", "num", "strip_ws", "pad_ws", "repeat_all", "bracket", "swap", "drop_class", "w_del", "w_dup", "w_swap", "w_other", "w_sep", "w_prefix", "gram", "gram", "gram")


def _structural(s: str) -> list[int]:
    """positions outside the long alphanumeric runs (keys, hashes, base58 payloads): where the grammar of a descriptor / path / URI lives"""
    out, i, n = [], 0, min(len(s), 20000)
    while i < n:
        if s[i].isalnum():
            j = i
            while j < n and s[j].isalnum():
                j += 1
            if j - i <= 12:
                out.extend(range(i, j))
            i = j
        else:
            out.append(i)
            i += 1
    return out


def _tpos(n: int, pos: int, mode: int, span: int = 0, s: str | None = None) -> int:
    hi = max(n - span, 0)
    if hi == 0:
        return 0
    if mode == 5 and s is not None:
        cand = [i for i in _structural(s) if i <= hi]
        if cand:
            return cand[pos % len(cand)]
    if mode == 2:
        return pos % min(hi + 1, 8)
    if mode == 3:
        return hi - pos % min(hi + 1, 10)
    return pos % (hi + 1)


def _digit_runs(s: str) -> list[tuple[int, int]]:
    runs, i, n = [], 0, min(len(s), 20000)
    while i < n:
        if s[i] in "0123456789":
            j = i
            while j < n and s[j] in "0123456789":
                j += 1
            runs.append((i, j))
            i = j
        else:
            i += 1
    return runs


_TMODES = (0, 0, 5, 2, 3, 5, 5, 3)


def apply_text_mut(s: str, m, other: str = "") -> str:
    m = unpack(m, TEXT_OPS, _TMODES)
    op, pos, val, k, mode = m["op"], m["pos"], m["val"], m["n"], m.get("mode", 0)
    n = len(s)
    ch = CHAR_EDGES[val % len(CHAR_EDGES)]
    if op == "trunc":
        return s[: _tpos(n, pos, mode, 0, s)]
    if op == "append":
        return s + ch * (1 + k % 5)
    if op == "splice":
        return s[: _tpos(n, pos, mode, 0, s)] + other[val % (len(other) + 1) :]
    if op == "splice_in":
        i = _tpos(n, pos, mode, 0, s)
        j = val % (len(other) + 1)
        return s[:i] + other[j : j + 1 + k % 64] + s[i:]
    if op == "insert":
        i = _tpos(n, pos, mode, 0, s)
        return s[:i] + ch * (1 + k % 3) + s[i:]
    if op == "pad_ws":
        ws = (" ", "\t", "\n", "\u3000", "\xa0", "\r\n", "\x00", "\ufeff")[val % 8]
        return (ws if k % 2 else "") + s + (ws if k % 3 else "")
    if op == "repeat_all":
        reps = (2, 3, 16, 300, 5000)[val % 5]
        sep = ("", " ", ",", "/", "\n")[k % 5]
        if (n + 1) * reps > MAX_LEN:
            reps = 2
        return sep.join([s] * reps)
    if n == 0:
        return s
    if op == "set":
        i = _tpos(n, pos, mode, 1, s)
        return s[:i] + ch + s[i + 1 :]
    if op == "del":
        i = _tpos(n, pos, mode, 1, s)
        return s[:i] + s[i + 1 + k % 12 :]
    if op == "dup":
        i = _tpos(n, pos, mode, 1, s)
        seg = s[i : i + 1 + k % 24]
        return s[:i] + seg * (2 + val % 3) + s[i + len(seg) :]
    if op == "dup_big":
        i = _tpos(n, pos, mode, 1, s)
        seg = s[i : i + 1 + k % 12]
        reps = (50, 300, 1100, 3500, 10000)[val % 5]
        if len(seg) * reps + n > MAX_LEN:
            reps = 50
        return s[:i] + seg * reps + s[i + len(seg) :]
    if op == "upper":
        return s.upper()
    if op == "lower":
        return s.lower()
    if op == "swapcase":
        i = _tpos(n, pos, mode, 1, s)
        return s[:i] + s[i].swapcase() + s[i + 1 :]
    if op == "num":
        runs = _digit_runs(s)
        if mode == 5:  # the numbers of the grammar (indexes, thresholds, locks, amounts), not the digits inside a key
            structural = set(_structural(s))
            runs = [r for r in runs if r[0] in structural] or runs
        if not runs:
            return s
        a, b = runs[pos % len(runs)]
        return s[:a] + NUM_EDGES[val % len(NUM_EDGES)] + s[b:]
    if op == "strip_ws":
        return "".join(s.split())
    if op == "bracket":
        # unbalance or re-nest: drop / double one bracket
        idx = [i for i in range(min(n, 20000)) if s[i] in "()[]{}<>"]
        if not idx:
            return s
        i = idx[pos % len(idx)]
        return s[:i] + (s[i] * 2 if k % 2 else "") + s[i + 1 :]
    if op == "swap":
        i = _tpos(n, pos, mode, 2, s)
        j = (i + 1 + k % 12) % n
        lst = list(s)
        lst[i], lst[j] = lst[j], lst[i]
        return "".join(lst)
    if op in ("w_del", "w_dup", "w_swap", "w_other", "w_sep", "w_prefix", "gram", "gram", "gram"):
        words = s.split()
        if not words or len(words) > 5000:
            return s
        i = pos % len(words)
        if op == "w_del":
            del words[i]
        elif op == "w_dup":
            words[i:i] = [words[i]] * (1 + k % 3)
        elif op == "w_swap":
            j = (i + 1 + k) % len(words)
            words[i], words[j] = words[j], words[i]
        elif op == "w_other":
            ow = other.split() or ["abandon"]
            words[i] = ow[val % len(ow)]
        elif op == "w_prefix":
            words[i] = words[i][: 1 + k % 4]
        sep = (" ", " ", " ", "\u3000", "  ", "\t", "\n", " \u3000 ")[val % 8] if op == "w_sep" else " "
        return sep.join(words)
    if op == "gram":
        return _gram(s, pos, val, k)
    if op == "drop_class":
        cls = ("0123456789", " ", "()", ",", "/", "'h", "[]", "{}")[val % 8]
        return "".join(c for c in s if c not in cls)
    return s


GRAM_FUNCS = ("pk", "pkh", "wpkh", "sh", "wsh", "tr", "combo", "multi", "sortedmulti", "multi_a", "sortedmulti_a", "addr", "raw", "rawtr", "and_v", "and_b", "and_n", "or_b", "or_c", "or_d", "or_i", "andor", "thresh",
              "older", "after", "sha256", "hash256", "ripemd160", "hash160", "pk_k", "pk_h", "musig")
GRAM_NUMS = ("0", "1", "2", "3", "16", "17", "20", "21", "144", "65535", "65536", "4194304", "4194305", "499999999", "500000000", "2147483647", "2147483648", "4294967295", "999", "1000")
GRAM_WRAPPERS = "asctdvjnlu"


def _gram(s: str, pos: int, val: int, k: int) -> str:
    """a grammar-aware edit of a descriptor / miniscript / path: another function name, another wrapper letter, another small number,
    the other hardened marker, a wildcard for an index, an extra nesting level, one more argument -- edits that often stay well formed"""
    import re

    how = k % 8
    head = s[:20000]
    if how == 0:
        names = [m for m in re.finditer(r"[a-z_0-9]+(?=\()", head)]
        if names:
            m = names[pos % len(names)]
            return s[: m.start()] + GRAM_FUNCS[val % len(GRAM_FUNCS)] + s[m.end():]
    elif how == 1:
        wr = [m for m in re.finditer(r"(?<![a-z_0-9])[asctdvjnlu]+(?=:)", head)]
        if wr:
            m = wr[pos % len(wr)]
            w = m.group()
            i = val % len(w)
            new = (w[:i] + GRAM_WRAPPERS[(val // 7) % 10] + w[i + 1:], w + GRAM_WRAPPERS[val % 10], w[1:], GRAM_WRAPPERS[val % 10] + w)[(val // 3) % 4]
            # an emptied wrapper string takes its colon with it
            return s[: m.start()] + new + s[m.end() + (0 if new else 1):]
    elif how == 2:
        nums = [m for m in re.finditer(r"(?<![0-9a-zA-Z])[0-9]{1,10}(?![0-9a-zA-Z])", head)]
        if nums:
            m = nums[pos % len(nums)]
            return s[: m.start()] + GRAM_NUMS[val % len(GRAM_NUMS)] + s[m.end():]
    elif how == 3:
        marks = [m for m in re.finditer(r"(?<=/)(?:[0-9]+|\*|<[0-9;]+>)([h'H])(?=[/\]),]|$)", head)]
        if marks:
            m = marks[pos % len(marks)]
            return s[: m.start(1)] + ("h", "'", "H", "")[val % 4] + s[m.end(1):]
        nums = [m for m in re.finditer(r"/[0-9]+(?![0-9a-zA-Z'hH])", head)]
        if nums:
            m = nums[pos % len(nums)]
            return s[: m.end()] + ("h", "'")[val % 2] + s[m.end():]
    elif how == 4:
        idx = [m for m in re.finditer(r"/(\*|[0-9]+|<[0-9;]+>)", head)]
        if idx:
            m = idx[pos % len(idx)]
            return s[: m.start()] + ("/*", "/0", "/<0;1>", "/<0;1;2>", "/*h", "/1/*", "", "/2147483647")[val % 8] + s[m.end():]
    elif how == 5:
        body, sep, chk = s.partition("#")
        w = ("sh(", "wsh(", "tr(79be667ef9dcbbac55a06295ce870b07029bfcdb2dce28d959f2815b16f81798,", "sh(wsh(", "t:", "and_v(v:", "or_i(0,", "l:")[val % 8]
        return w + body + ")" * w.count("(")
    elif how == 6:
        commas = [i for i in range(min(len(s), 20000)) if s[i] == ","]
        if commas:
            i = commas[pos % len(commas)]
            j = s.find(",", i + 1)
            j = j if j != -1 else s.find(")", i + 1)
            if j != -1:
                arg = s[i:j]
                return s[:j] + arg * (1 + val % 3) + s[j:] if val % 4 else s[:i] + s[j:]
    else:
        return s.split("#")[0]
    return s


def apply_text(s: str, muts: list, other: str = "") -> str:
    for m in muts:
        s = apply_text_mut(s, m, other)
        if len(s) > MAX_LEN:
            s = s[:MAX_LEN]
    return s


def text_mut():
    return st.integers(0, PACKED_MAX)


def text_muts(min_size: int = 0, max_size: int = 6):
    return st.lists(text_mut(), min_size=min_size, max_size=max_size)


# ---------------------------------------------------------------------------------------------- JSON trees
def _nest(depth: int, leaf=0, as_dict: bool = False):
    x = leaf
    for _ in range(depth):
        x = {"a": x} if as_dict else [x]
    return x


JSON_WRONG = (
    None, True, False, 0, 1, -1, 2**31, 2**32, 2**64, 2**70, -(2**63) - 1, 10**400, 1.5, 1.0, -0.0, 1e300, "", " ", "zz", "0", "00", "0x00", "abc", "00" * 33, "\x00", "\ud800", "\uff10\uff10", "1" * 5000,
    [], [[]], [None], [0], [""], ["00"], {}, {"": ""}, {"a": 1}, "NEST-LIST-50", "NEST-DICT-50", "NEST-LIST-900", "NEST-DICT-900", "LONG-LIST", "mainnet", "legacy", "true",
)
JSON_OPS = ("replace", "replace", "replace", "delete", "extra", "str_edit", "int_edit", "list_edit", "swap_sibling", "stringify", "numberify")


def json_paths(tree, limit: int = 4000) -> list[tuple]:
    """Every node of the tree as a path (tuple of keys / indexes), the root included, pre-order."""
    out: list[tuple] = []
    stack = [((), tree)]
    while stack and len(out) < limit:
        path, node = stack.pop()
        out.append(path)
        if isinstance(node, dict):
            for k in sorted(node, reverse=True):
                stack.append((path + (k,), node[k]))
        elif isinstance(node, list):
            for i in range(min(len(node), 40) - 1, -1, -1):
                stack.append((path + (i,), node[i]))
    return out


def _get(tree, path):
    for p in path:
        tree = tree[p]
    return tree


def _set(tree, path, value):
    if not path:
        return value
    parent = _get(tree, path[:-1])
    parent[path[-1]] = value
    return tree


def _wrong(val: int):
    w = JSON_WRONG[val % len(JSON_WRONG)]
    if w == "NEST-LIST-50":
        return _nest(50)
    if w == "NEST-DICT-50":
        return _nest(50, as_dict=True)
    if w == "NEST-LIST-900":  # the deepest json.loads itself reads under the interpreter's default recursion limit is ~990
        return _nest(900)
    if w == "NEST-DICT-900":
        return _nest(900, as_dict=True)
    if w == "LONG-LIST":
        return [0] * 3000
    return copy.deepcopy(w)


def apply_json_mut(tree, m):
    m = unpack(m, JSON_OPS)
    op, pos, val, k = m["op"], m["pos"], m["val"], m["n"]
    paths = json_paths(tree)
    path = paths[pos % len(paths)]
    node = _get(tree, path)
    if op == "replace":
        return _set(tree, path, _wrong(val))
    if op == "delete":
        if not path:
            return _wrong(val)
        parent = _get(tree, path[:-1])
        del parent[path[-1]]
        return tree
    if op == "extra":
        tgt = node if isinstance(node, dict) else (_get(tree, path[:-1]) if path and isinstance(_get(tree, path[:-1]), dict) else None)
        if tgt is None:
            return _set(tree, path, _wrong(val))
        tgt[("extra", "", "__class__", "version", "check_validity", "\x00", "0")[k % 7]] = _wrong(val)
        return tree
    if op == "str_edit":
        if not isinstance(node, str):
            return _set(tree, path, _wrong(val))
        s = node
        edits = (
            s[:-1], s + "0", s + "00", s[: len(s) // 2], s + s, s.upper(), " " + s, s + "\n", "0x" + s, s[2:], s.replace("0", "g", 1), s[:1] + "\u0660" + s[2:], s * 40 if len(s) < 2000 else s,
            "ff" * (len(s) // 2), "00" * (len(s) // 2), s[::-1], s + "\x00", "-" + s,
        )
        return _set(tree, path, edits[val % len(edits)])
    if op == "int_edit":
        if isinstance(node, bool) or not isinstance(node, int):
            return _set(tree, path, _wrong(val))
        edits = (node + 1, node - 1, -node, node + 2**32, node + 2**64, float(node) if abs(node) < 2**53 else -1, str(node), node * 2, 0, -1, 2**31 - 1, 2**31, 2**32 - 1, 2**32, 2**63, 2**64 - 1, 2**64, [node], node + 0.5 if abs(node) < 2**50 else 0.5, bool(node & 1))
        return _set(tree, path, edits[val % len(edits)])
    if op == "list_edit":
        if not isinstance(node, list):
            return _set(tree, path, _wrong(val))
        lst = node
        e = val % 9
        if e == 0:
            new = []
        elif e == 1:
            new = lst + lst
        elif e == 2:
            new = lst[:-1]
        elif e == 3:
            new = lst + [_wrong(k)]
        elif e == 4:
            new = [lst]
        elif e == 5:
            new = lst[::-1]
        elif e == 6:
            new = (lst * 300)[:3000] if lst else [None] * 300
        elif e == 7:
            new = {str(i): x for i, x in enumerate(lst)}
        else:
            new = lst[:1] * 2 + lst[1:]
        return _set(tree, path, new)
    if op == "swap_sibling":
        if not path:
            return tree
        parent = _get(tree, path[:-1])
        keys = sorted(parent) if isinstance(parent, dict) else list(range(len(parent)))
        other = keys[k % len(keys)]
        parent[path[-1]], parent[other] = parent[other], parent[path[-1]]
        return tree
    if op == "stringify":
        try:
            return _set(tree, path, json.dumps(node) if not isinstance(node, str) else [node])
        except (RecursionError, ValueError, TypeError):
            return tree
    if op == "numberify":
        if isinstance(node, str):
            try:
                return _set(tree, path, int(node[:600], 16) if node else 0)
            except ValueError:
                return _set(tree, path, len(node))
        return _set(tree, path, _wrong(val))
    return tree


def apply_json(tree, muts: list):
    tree = copy.deepcopy(tree)
    for m in muts:
        tree = apply_json_mut(tree, m)
    return tree


def json_mut():
    return st.integers(0, PACKED_MAX)


def json_muts(min_size: int = 1, max_size: int = 4):
    return st.lists(json_mut(), min_size=min_size, max_size=max_size)


# ---------------------------------------------------------------------------------------------- raw material
def raw_bytes(max_size: int = 100):
    """Unstructured bytes of a declared binary type: lengths around every fixed-width boundary, edge fillings."""
    sizes = st.sampled_from((0, 1, 4, 8, 20, 31, 32, 33, 34, 36, 41, 63, 64, 65, 66, 70, 71, 72, 73, 78, 80, 81, 100))
    return st.one_of(
        st.binary(max_size=max_size),
        st.tuples(sizes, st.sampled_from(BYTE_EDGES)).map(lambda t: bytes([t[1]]) * t[0]),
        st.tuples(sizes, st.binary(min_size=1, max_size=4)).map(lambda t: (t[1] * (t[0] // len(t[1]) + 1))[: t[0]]),
    )


def raw_text(max_size: int = 60):
    alphabet = st.one_of(st.sampled_from(CHAR_EDGES), st.characters())
    return st.one_of(st.text(alphabet, max_size=max_size), st.text(max_size=max_size), st.sampled_from(CHAR_EDGES).map(lambda c: c * 3))
