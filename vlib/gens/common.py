"""Shared Hypothesis strategies; every case is JSON (ints, hex strings, lists)."""

from __future__ import annotations

from hypothesis import strategies as st

U32_EDGES = [0, 1, 2, 0x7FFFFFFF, 0x80000000, 0x80000001, 0xFFFFFFFE, 0xFFFFFFFF]
MAX_MONEY = 21_000_000 * 100_000_000


def u32():
    return st.one_of(st.sampled_from(U32_EDGES), st.integers(0, 0xFFFFFFFF), st.integers(0, 70000))


def sequence():
    return st.one_of(
        st.sampled_from([0, 1, 0xFFFFFFFF, 0xFFFFFFFE, 0xFFFFFFFD, 0x80000000, 0x00400000, 0x0040FFFF, 0xFFFF]),
        st.integers(0, 0xFFFFFFFF),
    )


def amount():
    return st.one_of(
        st.sampled_from([0, 1, 545, 546, 0xFFFFFFFF, 0x100000000, MAX_MONEY - 1, MAX_MONEY]),
        st.integers(0, MAX_MONEY),
        st.integers(0, 10**9),
    )


def hexbytes(min_size=0, max_size=40):
    return st.binary(min_size=min_size, max_size=max_size).map(bytes.hex)


def hex32():
    return st.binary(min_size=32, max_size=32).map(bytes.hex)


def push(data: bytes) -> bytes:
    """Minimal-length push opcode for data (not necessarily MINIMALDATA for small ints)."""
    n = len(data)
    if n < 0x4C:
        return bytes([n]) + data
    if n <= 0xFF:
        return b"\x4c" + bytes([n]) + data
    if n <= 0xFFFF:
        return b"\x4d" + n.to_bytes(2, "little") + data
    return b"\x4e" + n.to_bytes(4, "little") + data


@st.composite
def script_code(draw, max_items=12, truncated_ok=True):
    """Script bytes with code separators in and out of pushes, optional truncated final push."""
    items = draw(
        st.lists(
            st.one_of(
                st.sampled_from([b"\xab", b"\xac", b"\x51", b"\x00", b"\x63", b"\x68", b"\x75", b"\x76", b"\xad"]),
                st.binary(min_size=1, max_size=1),
                st.just(b"\xab"),
                st.just(b"\xab"),
                st.binary(max_size=6).map(push),
                st.just(push(b"\xab")),
                st.just(push(b"\x01\xab\xab")),
                st.binary(min_size=1, max_size=4).map(lambda d: b"\x4c" + bytes([len(d)]) + d),
                st.binary(min_size=1, max_size=4).map(lambda d: b"\x4d" + len(d).to_bytes(2, "little") + d),
            ),
            max_size=max_items,
        )
    )
    s = b"".join(items)
    # a lone byte may open a push that runs over the end: unless a truncated script is wanted, the push gets the bytes it announces
    # (every truncated script fails when run, so it is the rare case, and the one where the definitions of the legacy digest part ways)
    from vlib.models import sighash_ref as _ref

    if _ref.is_truncated(s):
        stop = 0
        for _op, _start, stop in _ref.script_ops(s):
            pass
        for _ in range(80):
            s += b"\xab"
            if not _ref.is_truncated(s):
                break
        else:
            s = s[:stop]  # the push announces more than a script holds: dropped
    if truncated_ok and draw(st.integers(0, 19)) == 7:
        s += draw(st.sampled_from([b"\x05\xab", b"\x4c", b"\x4c\x05\xab\xab", b"\x4d\xff", b"\x4e\x01\x00\x00", b"\x20\xab\xab\xab"]))
    return s.hex()


@st.composite
def tx_case(draw, min_in=1, max_in=5, max_out=5, witness=True, spk=None, amounts=None, ss=None):
    nin = draw(st.integers(min_in, max_in))
    nout = draw(st.integers(0, max_out))
    vin = []
    for _ in range(nin):
        vin.append(
            {
                "txid": draw(st.one_of(hex32(), st.just("00" * 31 + "01"))),
                "vout": draw(st.one_of(st.integers(0, 5), u32())),
                "script_sig": draw(ss if ss is not None else hexbytes(0, 12)),
                "sequence": draw(sequence()),
                "witness": draw(st.lists(hexbytes(0, 10), max_size=3)) if witness else [],
            }
        )
    vout = [
        {"value": draw(amounts if amounts is not None else amount()), "spk": draw(spk if spk is not None else hexbytes(0, 35))}
        for _ in range(nout)
    ]
    return {
        "version": draw(st.one_of(st.sampled_from([1, 2, 3]), u32())),
        "lock_time": draw(u32()),
        "vin": vin,
        "vout": vout,
    }


@st.composite
def valid_tx_case(draw, max_in=4, max_out=4, big_scripts=False, big_counts=False):
    """A transaction Tx.assert_valid accepts: >=1 input, >=1 output, distinct outpoints, total value <= MAX_MONEY.
    big_counts: one of the three counts (inputs, outputs, witness items) sits on the CompactSize 252/253 boundary."""
    nin = draw(st.integers(1, max_in))
    nout = draw(st.integers(1, max_out))
    many = draw(st.sampled_from(["nin", "nout", "witness"])) if big_counts else None
    edge = draw(st.sampled_from([252, 253, 254])) if big_counts else 0
    if many == "nin":
        nin = edge
    if many == "nout":
        nout = edge
    sizes = st.sampled_from([0, 1, 75, 76, 252, 253, 254, 255, 256, 520, 521]) if big_scripts else st.integers(0, 30)
    vin = []
    base_txid = draw(hex32())
    for k in range(nin):
        own = draw(st.booleans()) if many != "nin" else False
        if many == "nin":
            vin.append({"txid": base_txid, "vout": k, "script_sig": "", "sequence": 0xFFFFFFFF, "witness": []})
            continue
        vin.append(
            {
                "txid": draw(hex32()) if own else base_txid,
                "vout": draw(u32()) if own else k,  # same txid => distinct index
                "script_sig": draw(sizes.flatmap(lambda n: st.binary(min_size=n, max_size=n))).hex(),
                "sequence": draw(sequence()),
                "witness": draw(st.lists(sizes.flatmap(lambda n: st.binary(min_size=n, max_size=n)).map(bytes.hex), max_size=3)),
            }
        )
    # null outpoint (coinbase marker) is not a valid non-coinbase input
    for i in vin:
        if i["txid"] == "00" * 32 and i["vout"] == 0xFFFFFFFF:
            i["vout"] = 0
    seen = set()
    for i in vin:
        while (i["txid"], i["vout"]) in seen:
            i["vout"] = (i["vout"] + 1) % 0xFFFFFFFF
        seen.add((i["txid"], i["vout"]))
    if many == "witness":
        vin[0]["witness"] = [draw(st.sampled_from(["", "00", "aabb"]))] * edge
    cap = MAX_MONEY // nout
    if many == "nout":
        vout = [{"value": k, "spk": "51"} for k in range(nout)]
    else:
        vout = [
            {"value": draw(st.one_of(st.sampled_from([0, 1, cap]), st.integers(0, cap))), "spk": draw(sizes.flatmap(lambda n: st.binary(min_size=n, max_size=n))).hex()}
            for _ in range(nout)
        ]
    return {"version": draw(st.one_of(st.sampled_from([1, 2, 3]), u32())), "lock_time": draw(u32()), "vin": vin, "vout": vout}
