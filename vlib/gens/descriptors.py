"""Descriptor recipes (JSON) -> descriptor text + the model's tree, and the Hypothesis strategies of recipes.

A recipe mirrors the tree of vlib.models.descriptor_ref but names keys by a small *key tree id* and a path, so cases stay short
and shrink well; `build` turns a recipe into (text, tree) by deriving the keys with the model's BIP32 and writing the BIP380
grammar.  All randomness is Hypothesis draws; key trees are sha256-expanded from the drawn id.

KEY recipe   {"k": hex|hexu|xonly|wif|wifu|xpub|xprv, "s": id, "op": [path master->key], "o": 0 none|1 real origin|2 foreign fingerprint,
              "p": [step | {"mp": [steps]}], "w": None|"u"|"h", "y": 0 h | 1 ' | 2 alternating, "up": uppercase hex}
             {"k": "musig", "parts": [KEY], "p": [...], "w": None|"u"}
NODE recipe  like the model's tree with KEY recipes; {"f": "addr", "kind", "s", "net", "up"}; {"f": "raw", "hex"};
             {"f": "ms", "tpl", "keys", "n"} for the two hand-assembled miniscript bodies.
"""

from __future__ import annotations

import hashlib
from functools import lru_cache

from hypothesis import strategies as st

from vlib.models import descriptor_ref as m

H = m.HARD
MS_TEMPLATES = {
    "and_v(v:pk,older)": "and_v(v:pk({0}),older({n}))",
    "or_d(pk,and_v(v:pkh,older))": "or_d(pk({0}),and_v(v:pkh({1}),older({n})))",
}


def seed_of(i: int) -> bytes:
    return hashlib.sha256(b"C14 key tree %d" % i).digest()[:16]


@lru_cache(maxsize=2048)
def tree_key(seed_id: int, path: tuple, net_type: str) -> m.XK:
    """The private extended key at `path` below the master of key tree `seed_id`."""
    version = m.network("mainnet" if net_type == "main" else "testnet")["prv"]
    return m.derive(m.xk_master(seed_of(seed_id), version), path)


def _sym(mode: int, pos: int) -> str:
    """The hardening symbol of the step at position `pos` of a key expression: h, ', or alternating by position."""
    return "h" if mode == 0 else "'" if mode == 1 else ("h" if pos % 2 == 0 else "'")


def _step_text(i: int, mode: int, pos: int, last: list) -> str:
    if i < H:
        return str(i)
    last[0] = _sym(mode, pos)
    return f"{i - H}{last[0]}"


def build_key(r: dict, net: str, variant: int | None):
    """-> (text, tree node).  variant: which element a multipath step takes; None writes the <a;b> form (tree is then None).

    The symbol of a step depends on its position only (and on the element number inside a <a;b> step), so that the j-th
    expansion written from the recipe is character for character BIP389's textual expansion of the <a;b> text."""
    nt = m.network(net)["type"]
    if r["k"] == "musig":
        parts = [build_key(p, net, variant) for p in r["parts"]]
        text = "musig(" + ",".join(t for t, _ in parts) + ")"
        text += "".join(f"/{i}" for i in r["p"]) + ("/*" if r["w"] else "")
        node = None if any(n is None for _, n in parts) else {"t": "musig", "parts": [n for _, n in parts], "path": list(r["p"]), "wild": r["w"]}
        return text, node
    x = tree_key(r["s"], tuple(r["op"]), nt)
    last = [None]
    mode = r.get("y", 0)
    text, origin, pos = "", None, 0
    if r.get("o"):
        fp = tree_key(r["s"], (), nt).fingerprint.hex() if r["o"] == 1 else hashlib.sha256(b"fp%d" % r["s"]).hexdigest()[:8]
        origin = {"fp": fp, "path": list(r["op"])}
        text = "[" + (fp.upper() if r.get("up") else fp)
        for i in r["op"]:
            text += "/" + _step_text(i, mode, pos, last)
            pos += 1
        text += "]"
    k = r["k"]
    if k in ("hex", "hexu", "xonly"):
        sec = m.ser_point(x.P, k != "hexu")
        body = (sec[1:] if k == "xonly" else sec).hex()
        return text + (body.upper() if r.get("up") else body), {"t": "k", "origin": origin, "kind": "hex", "text": body, "path": [], "wild": None, "sym": last[0]}
    if k in ("wif", "wifu"):
        body = m.wif_encode(x.k, k == "wif", net)
        return text + body, {"t": "k", "origin": origin, "kind": "wif", "text": body, "path": [], "wild": None, "sym": last[0]}
    body = m.xk_encode(x if k == "xprv" else m.xk_neuter(x))
    text += body
    path, multipath = [], False
    for step in r.get("p", []):
        if isinstance(step, dict):
            if variant is None:
                multipath = True
                scratch = [None]
                text += "/<" + ";".join(_step_text(e, mode, pos + j, scratch) for j, e in enumerate(step["mp"])) + ">"
            else:
                text += "/" + _step_text(step["mp"][variant], mode, pos + variant, last)
                path.append(step["mp"][variant])
        else:
            text += "/" + _step_text(step, mode, pos, last)
            path.append(step)
        pos += 1
    if r.get("w"):
        text += "/*"
        if r["w"] == "h":
            last[0] = _sym(mode, pos)
            text += last[0]
    node = None if multipath else {"t": "k", "origin": origin, "kind": k, "text": body, "path": path, "wild": r.get("w"), "sym": last[0]}
    return text, node


def _addr_script(r: dict) -> bytes:
    h = hashlib.sha256(b"C14 addr %d" % r["s"]).digest()
    return {
        "p2pkh": b"\x76\xa9\x14" + h[:20] + b"\x88\xac",
        "p2sh": b"\xa9\x14" + h[:20] + b"\x87",
        "p2wpkh": b"\x00\x14" + h[:20],
        "p2wsh": b"\x00\x20" + h,
        "p2tr": b"\x51\x20" + h,
    }[r["kind"]]


def build(r, net: str, variant: int | None = 0):
    """Recipe -> (text without checksum, tree | None when the text is a multipath one)."""
    if isinstance(r, list):
        (lt, ln), (rt, rn) = build(r[0], net, variant), build(r[1], net, variant)
        return "{" + lt + "," + rt + "}", None if ln is None or rn is None else [ln, rn]
    f = r["f"]
    if f in ("pk", "pkh", "wpkh", "combo", "rawtr"):
        t, n = build_key(r["key"], net, variant)
        return f"{f}({t})", None if n is None else {"f": f, "key": n}
    if f in ("sh", "wsh"):
        t, n = build(r["arg"], net, variant)
        return f"{f}({t})", None if n is None else {"f": f, "arg": n}
    if f in ("multi", "sortedmulti", "multi_a", "sortedmulti_a"):
        ks = [build_key(k, net, variant) for k in r["keys"]]
        node = None if any(n is None for _, n in ks) else {"f": f, "k": r["k"], "keys": [n for _, n in ks]}
        return f"{f}({r['k']}," + ",".join(t for t, _ in ks) + ")", node
    if f == "tr":
        kt, kn = build_key(r["key"], net, variant)
        if r.get("tree") is None:
            return f"tr({kt})", None if kn is None else {"f": "tr", "key": kn, "tree": None}
        tt, tn = build(r["tree"], net, variant)
        return f"tr({kt},{tt})", None if kn is None or tn is None else {"f": "tr", "key": kn, "tree": tn}
    if f == "addr":
        addr = m.address_of(_addr_script(r), r["net"])
        if r.get("up") and r["kind"] in ("p2wpkh", "p2wsh", "p2tr"):
            addr = addr.upper()
        return f"addr({addr})", {"f": "addr", "addr": addr}
    if f == "raw":
        return f"raw({r['hex'].upper() if r.get('up') else r['hex']})", {"f": "raw", "hex": r["hex"]}
    if f == "ms":
        ks = [build_key(k, net, variant) for k in r["keys"]]
        text = MS_TEMPLATES[r["tpl"]].format(*[t for t, _ in ks], n=r["n"])
        node = None if any(n is None for _, n in ks) else {"f": "ms", "text": text, "tpl": r["tpl"], "keys": [n for _, n in ks], "n": r["n"]}
        return text, node
    raise ValueError(f)


def strip_ms(node):
    """The tree as the model's parser returns it: miniscript bodies are opaque text there."""
    if isinstance(node, list):
        return [strip_ms(node[0]), strip_ms(node[1])]
    if node["f"] == "ms":
        return {"f": "ms", "text": node["text"]}
    out = dict(node)
    if "arg" in out:
        out["arg"] = strip_ms(out["arg"])
    if out.get("tree") is not None:
        out["tree"] = strip_ms(out["tree"])
    return out


def map_keys(r, fn):
    """The recipe with fn applied to every plain KEY recipe (musig participants included) and to addr nodes."""
    if isinstance(r, list):
        return [map_keys(r[0], fn), map_keys(r[1], fn)]
    out = dict(r)
    if "k" in out and "f" not in out:
        if out["k"] == "musig":
            out["parts"] = [map_keys(p, fn) for p in out["parts"]]
            return out
        return fn(out)
    if out.get("f") == "addr":
        return fn(out)
    for field in ("key", "arg", "tree"):
        if out.get(field) is not None:
            out[field] = map_keys(out[field], fn)
    if "keys" in out:
        out["keys"] = [map_keys(k, fn) for k in out["keys"]]
    return out


def foreign(r, shift: int = 1000):
    """The same shape over fresh key trees: a descriptor that shares no key with r."""
    out = map_keys(r, lambda k: {**k, "s": k["s"] + shift})
    if not isinstance(out, list) and out.get("f") == "raw":
        out = {**out, "hex": out["hex"] + "51"}
    return out


def recipe_keys(r) -> list[dict]:
    acc: list[dict] = []
    map_keys(r, lambda k: acc.append(k) or k)
    return [k for k in acc if "k" in k]


def count_multipath(r) -> int:
    """Number of elements of the multipath steps (0 = none); the strategies keep it equal across steps."""
    n = 0
    for k in recipe_keys(r):
        for s in k.get("p", []):
            if isinstance(s, dict):
                n = len(s["mp"])
    return n


# ---------------------------------------------------------------- strategies
SMALL_STEPS = [0, 1, 2, 44, H - 1]
OPATHS = [[], [H + 44, H, H], [H + 84, H + 1, H + 2], [1, 2], [H - 1], [H + 0x7FFFFFFF], [H + 86, H, H, 0], [0, H + 5]]


def step_st(hardened: bool):
    base = st.one_of(st.sampled_from(SMALL_STEPS), st.integers(0, H - 1), st.integers(0, 30))
    if not hardened:
        return base
    return st.one_of(base, base.map(lambda i: i + H))


@st.composite
def plain_key(draw, *, unc: bool, xonly: bool, ext_only: bool = False, wild: bool = True, wild_force: bool = False,
              need_private_ok: bool = True, seeds=(0, 7), mp: int = 0):
    kinds = ["xpub"] * 5 + ["xprv"] * 4
    if not ext_only:
        kinds += ["hex", "hex", "wif"] + (["hexu", "wifu"] if unc else []) + (["xonly", "xonly"] if xonly else [])
    k = draw(st.sampled_from(kinds))
    r = {
        "k": k,
        "s": draw(st.integers(*seeds)),
        "op": draw(st.one_of(st.sampled_from(OPATHS), st.lists(step_st(True), max_size=3))),
        "o": draw(st.sampled_from([0, 0, 1, 1, 2])),
        "y": draw(st.sampled_from([0, 0, 1, 1, 2])),
    }
    if draw(st.integers(0, 7)) == 0:
        r["up"] = True
    if k in ("xpub", "xprv"):
        # a hardened step below an xpub is the documented refusal: kept rare
        hard = k == "xprv" or (need_private_ok and draw(st.integers(0, 19)) == 0)
        steps = draw(st.lists(step_st(hard), max_size=3))
        if mp and draw(st.booleans()):
            pos = draw(st.integers(0, len(steps)))
            elems = draw(st.lists(step_st(k == "xprv"), min_size=mp, max_size=mp, unique=True))
            steps = steps[:pos] + [{"mp": elems}] + steps[pos:]
        r["p"] = steps
        if wild_force:
            r["w"] = draw(st.sampled_from(["u", "u", "u", "h"] if k == "xprv" else ["u"]))
        elif wild:
            r["w"] = draw(st.sampled_from(["u", "u", None, "h"] if k == "xprv" else ["u", "u", None] + (["h"] if hard and need_private_ok else [])))
        else:
            r["w"] = None
    return r


@st.composite
def musig_key(draw, *, seeds=(0, 7), mp: int = 0, wild_force: bool = False):
    n = draw(st.integers(1, 3))
    if draw(st.booleans()) or wild_force:
        # derivation on the aggregate: extended, unranged participants, unhardened path
        parts = [draw(plain_key(unc=False, xonly=False, ext_only=True, wild=False, seeds=seeds, mp=mp)) for _ in range(n)]
        path = draw(st.lists(step_st(False), max_size=2))
        w = draw(st.sampled_from(["u", "u", None])) if not wild_force else "u"
        if not path and w is None:
            path = [0]
        return {"k": "musig", "parts": parts, "p": path, "w": w}
    parts = [draw(plain_key(unc=False, xonly=False, seeds=seeds, mp=mp)) for _ in range(n)]
    return {"k": "musig", "parts": parts, "p": [], "w": None}


def tap_key(*, seeds=(0, 7), mp: int = 0, musig: bool = True, wild_force: bool = False):
    plain = plain_key(unc=False, xonly=not wild_force, seeds=seeds, mp=mp, ext_only=wild_force, wild_force=wild_force)
    if not musig:
        return plain
    return st.one_of(plain, plain, plain, musig_key(seeds=seeds, mp=mp, wild_force=wild_force))


@st.composite
def multi_node(draw, name_pool, *, unc: bool, max_n: int, seeds, mp, tap=False):
    big = draw(st.integers(0, 9 if tap else 24)) == 0 and max_n > 4
    n = draw(st.sampled_from([max_n, max_n - 1])) if big else draw(st.integers(1, min(4, max_n)))
    if tap:
        keys = [draw(tap_key(seeds=seeds, mp=mp, musig=not big)) for _ in range(n)] if not big else [
            draw(plain_key(unc=False, xonly=True, seeds=seeds, wild=False)) for _ in range(n)]
    else:
        keys = [draw(plain_key(unc=unc and not big, xonly=False, seeds=seeds, mp=mp, wild=not big)) for _ in range(n)]
    # the threshold on its boundaries: 1, n, and 16 | 17 where BIP387 switches from OP_16 to a pushed number
    k = draw(st.sampled_from([1, n, min(n, 15), min(n, 16), min(n, 17)])) if big else draw(st.integers(1, n))
    return {"f": draw(st.sampled_from(name_pool)), "k": k, "keys": keys}


@st.composite
def ms_node(draw, *, seeds, tap: bool):
    tpl = draw(st.sampled_from(sorted(MS_TEMPLATES)))
    nkeys = 1 if tpl == "and_v(v:pk,older)" else 2
    ids = draw(st.lists(st.integers(*seeds), min_size=nkeys, max_size=nkeys, unique=True))
    keys = []
    for i in ids:
        k = draw(plain_key(unc=False, xonly=tap, seeds=(i, i), need_private_ok=False))
        if k["k"] in ("wif", "xprv"):  # public spellings only: the body is compared as text
            k["k"] = "hex" if k["k"] == "wif" else "xpub"
            if k["k"] == "xpub":
                k["p"] = [s for s in k.get("p", []) if not isinstance(s, dict) and s < H]
                k["w"] = "u" if k.get("w") else None
        k["up"] = False
        k["y"] = k["y"] % 2  # one symbol: the body is compared as text, and the writer keeps one symbol per key
        keys.append(k)
    return {"f": "ms", "tpl": tpl, "keys": keys, "n": draw(st.one_of(st.sampled_from([1, 16, 17, 144, 65535]), st.integers(1, 65535)))}


@st.composite
def tap_tree(draw, *, seeds, mp, depth=0, ms=True):
    if depth == 0 and draw(st.integers(0, 29)) == 0:
        # a caterpillar: one leaf per level, so the last leaves sit deep and their control blocks carry long merkle paths
        n = draw(st.integers(8, 24))
        leaves = [{"f": "pk", "key": {"k": "xonly", "s": draw(st.integers(*seeds)), "op": [j], "o": 0}} for j in range(n)]
        leaves[draw(st.integers(0, n - 1))] = {"f": "pk", "key": draw(tap_key(seeds=seeds, mp=mp))}
        tree = leaves[-1]
        for leaf in reversed(leaves[:-1]):
            tree = [leaf, tree] if draw(st.booleans()) else [tree, leaf]
        return tree
    if depth < 3 and draw(st.integers(0, 2 + depth)) == 0:
        return [draw(tap_tree(seeds=seeds, mp=mp, depth=depth + 1, ms=ms)), draw(tap_tree(seeds=seeds, mp=mp, depth=depth + 1, ms=ms))]
    kind = draw(st.sampled_from(["pk", "pk", "multi_a", "sortedmulti_a"] + (["ms"] if ms else [])))
    if kind == "pk":
        return {"f": "pk", "key": draw(tap_key(seeds=seeds, mp=mp))}
    if kind == "ms":
        return draw(ms_node(seeds=seeds, tap=True))
    return draw(multi_node([kind], unc=False, max_n=20, seeds=seeds, mp=mp, tap=True))


SHAPES = [
    "pk", "pkh", "wpkh", "combo", "sh(pk)", "sh(pkh)", "sh(wpkh)", "sh(multi)", "wsh(pk)", "wsh(pkh)", "wsh(multi)", "sh(wsh(pk))",
    "sh(wsh(pkh))", "sh(wsh(multi))", "multi", "tr", "tr", "tr-tree", "tr-tree", "tr-tree", "rawtr", "addr", "raw", "wsh(ms)", "sh(wsh(ms))",
    "tr-multi_a-boundary",
]
RANGED_SHAPES = [s for s in SHAPES if s not in ("addr", "raw")]


@st.composite
def descriptor(draw, *, seeds=(0, 7), mp: int = 0, ranged: bool = False, shapes=None, ms: bool = True):
    """A descriptor recipe.  ranged=True forces a wildcard into the first key so the descriptor has a range."""
    pool = shapes or (RANGED_SHAPES if ranged else SHAPES)
    if not ms:
        pool = [s for s in pool if "ms" not in s]
    shape = draw(st.sampled_from(pool))
    kw = {"seeds": seeds, "mp": mp}

    def wrap(node):
        for outer in reversed(shape.split("(")[:-1]):
            node = {"f": outer, "arg": node}
        return node

    inner = shape.replace(")", "").split("(")[-1]
    ctx = shape.split("(")[0] if "(" in shape else "top"
    in_wsh = "wsh" in shape
    if inner in ("pk", "pkh", "wpkh", "combo"):
        unc = inner != "wpkh" and not in_wsh
        node = wrap({"f": inner, "key": draw(plain_key(unc=unc, xonly=False, ext_only=ranged, wild_force=ranged, **kw))})
    elif inner == "multi":
        max_n = 3 if ctx == "top" else 15 if ctx == "sh" and not in_wsh else 16
        node = draw(multi_node(["multi", "sortedmulti", "sortedmulti"], unc=not in_wsh, max_n=max_n, **kw))
        if ranged:
            node["keys"][0] = draw(plain_key(unc=False, xonly=False, ext_only=True, wild_force=True, **kw))
        node = wrap(node)
    elif inner == "ms":
        node = wrap(draw(ms_node(seeds=seeds, tap=False)))
        if ranged:
            k = node
            while k["f"] != "ms":
                k = k["arg"]
            k["keys"][0] = {**k["keys"][0], "k": "xpub", "p": [0], "w": "u"}
    elif inner == "rawtr":
        node = {"f": "rawtr", "key": draw(tap_key(wild_force=ranged, **kw))}
    elif inner == "tr":
        node = {"f": "tr", "key": draw(tap_key(wild_force=ranged, **kw)), "tree": None}
    elif inner == "tr-tree":
        node = {"f": "tr", "key": draw(tap_key(wild_force=ranged, **kw)), "tree": draw(tap_tree(seeds=seeds, mp=mp, ms=ms))}
    elif inner == "tr-multi_a-boundary":
        # BIP387: the threshold is OP_1..OP_16 up to 16 and a pushed number above, so 15, 16 and 17 of 17..20 keys
        n = draw(st.integers(17, 20))
        sid = draw(st.integers(*seeds))
        keys = [{"k": "xonly", "s": sid, "op": [j], "o": 0} for j in range(n)]
        keys[0] = draw(tap_key(wild_force=ranged, musig=False, **kw))
        leaf = {"f": draw(st.sampled_from(["multi_a", "sortedmulti_a"])), "k": draw(st.sampled_from([15, 16, 17, n])), "keys": keys}
        node = {"f": "tr", "key": draw(plain_key(unc=False, xonly=True, wild=False, seeds=seeds)), "tree": leaf}
    elif inner == "addr":
        node = {"f": "addr", "kind": draw(st.sampled_from(["p2pkh", "p2sh", "p2wpkh", "p2wsh", "p2tr"])), "s": draw(st.integers(*seeds)),
                "net": draw(st.sampled_from(m.NETWORK_NAMES)), "up": draw(st.integers(0, 3)) == 0}
    else:
        body = draw(st.one_of(st.binary(max_size=40), st.sampled_from([b"", b"\x6a", b"\x51\x20" + b"\x07" * 32, b"\x00\x14" + b"\x09" * 20, b"\xff"])))
        node = {"f": "raw", "hex": body.hex(), "up": draw(st.integers(0, 3)) == 0}
    return node


def index_st():
    return st.one_of(st.sampled_from([0, 1, 2, H - 1, H - 2, 0xFFFF, 0x10000]), st.integers(0, H - 1), st.integers(0, 40))
