"""Type-directed generator of miniscript expressions (JSON, see vlib/models/miniscript_ref.py) and of spend assignments.

Construction, not rejection: `_Gen.gen(req, budget)` builds an expression of the basic type and with the BIP379 properties named in `req`
by picking a fragment whose "requires" column can be met, handing each argument the requirement the tables propagate to it, typing the
result bottom-up with the model's table (the same table that later serves as the typing oracle) and, where a property is still missing,
repairing with a wrapper or falling back to a leaf that has it.  Nothing here imports btclib.

Families
  tree      recursive expressions over every fragment and wrapper (budget 1..40 nodes), keys and digests distinct unless `dup` says so,
            one timelock kind per expression unless `mix` says so, or-branches biased towards signatures so that `s`/`m` hold;
  chain     a run of up to ~120 unary wrappers (a s c d v j n and the sugared t l u) over a small tree, each step chosen among the
            wrappers the typing table allows there: the VERIFY folding and the wrapper-on-wrapper rows;
  wide      n-ary shapes sized around the resource limits: thresh / and_b / or_b / and_v / or_d / or_i / andor combs, multi, multi_a;
  mutant    a tree with one edit (fragment swapped for another of the same arity, wrapper changed, argument replaced by a leaf of another
            basic type, threshold or lock value pushed out of range): the model says whether it is still well-typed.
"""

from __future__ import annotations

import hashlib

from hypothesis import strategies as st

from vlib.models import miniscript_ref as M

OLDER_BLOCKS = [1, 2, 10, 144, 1008, 0xFFFF, 0x10000, 0x3F0005, 0x1234, 65535 + 0x10000]
OLDER_TIME = [0x400001, 0x400010, 0x40FFFF, 0x400000, 0x7F0003, 0x400000 | 144]
AFTER_HEIGHT = [1, 100, 1000, 499_999_999, 16, 17, 128, 32768, 840_000]
AFTER_TIME = [500_000_000, 500_000_001, 1_231_488_000, 1_700_000_000, 2**31 - 1]
HASH_NAMES = list(M.HASHES)

# fragments by the basic type they produce: (name, arity in subexpressions)
PRODUCTIONS = {
    "B": ["c", "d", "j", "n", "t", "l", "u", "and_v", "and_b", "or_b", "or_d", "or_i", "andor", "thresh", "and_n"],
    "V": ["v", "and_v", "or_c", "or_i", "andor"],
    "K": ["and_v", "or_i", "andor"],
    "W": ["a", "s"],
}
ARITY = {"c": 1, "d": 1, "j": 1, "n": 1, "t": 1, "l": 1, "u": 1, "v": 1, "a": 1, "s": 1, "and_v": 2, "and_b": 2, "or_b": 2, "or_c": 2, "or_d": 2, "or_i": 2,
         "andor": 3, "and_n": 2, "thresh": 2}  # fmt: skip


def build(name: str, args: list, k: int = 0):
    """The expression of production `name` (sugar resolved) over built arguments."""
    if name == "t":
        return ["and_v", args[0], ["1"]]
    if name == "l":
        return ["or_i", ["0"], args[0]]
    if name == "u":
        return ["or_i", args[0], ["0"]]
    if name == "and_n":
        return ["andor", args[0], args[1], ["0"]]
    if name == "thresh":
        return ["thresh", k, list(args)]
    return [name, *args]


class _Gen:
    def __init__(self, draw, ctx: str, older_kind: str, after_kind: str, dup: bool, sane_bias: bool):
        self.draw = draw
        self.ctx = ctx
        self.tap = ctx == M.TAPSCRIPT
        self.older_kind = older_kind
        self.after_kind = after_kind
        self.dup = dup
        self.sane_bias = sane_bias
        self.nkeys = 0
        self.nhash = 0

    # -- atoms
    def integer(self, lo, hi):
        return self.draw(st.integers(lo, hi))

    def pick(self, items):
        return items[self.integer(0, len(items) - 1)]

    def key(self):
        if self.dup and self.nkeys and self.integer(0, 3) == 0:
            return self.integer(0, self.nkeys - 1)
        self.nkeys += 1
        return self.nkeys - 1

    def digest(self):
        self.nhash += 1
        return self.nhash - 1

    def older_value(self):
        kind = self.older_kind if self.older_kind != "mixed" else self.pick(["blocks", "time"])
        return self.pick(OLDER_BLOCKS if kind == "blocks" else OLDER_TIME)

    def after_value(self):
        kind = self.after_kind if self.after_kind != "mixed" else self.pick(["height", "time"])
        return self.pick(AFTER_HEIGHT if kind == "height" else AFTER_TIME)

    def typ(self, e):
        return M.analyse(e, self.ctx).t

    # -- leaves
    def leaf_candidates(self, base: str):
        """Leaf-like expressions of a basic type, as thunks (keys are allocated only for the one taken)."""
        multi = "multi_a" if self.tap else "multi"

        def pk():
            return ["c", ["pk_k", self.key()]]

        def pkh():
            return ["c", ["pk_h", self.key()]]

        def mul():
            n = self.integer(1, 4)
            return [multi, self.integer(1, n), [self.key() for _ in range(n)]]

        def older():
            return ["older", self.older_value()]

        def after():
            return ["after", self.after_value()]

        def hsh():
            return [self.pick(HASH_NAMES), self.digest()]

        def vpk():
            return ["v", ["c", ["pk_k", self.key()]]]

        idioms = [
            lambda: ["d", ["v", older()]],  # dv:older(n)
            lambda: ["or_i", ["0"], ["n", older()]],  # ln:older(n)
            lambda: ["or_i", ["n", after()], ["0"]],  # un:after(n)
            lambda: ["and_v", vpk(), older()],
            lambda: ["and_v", vpk(), after()],
            lambda: ["and_v", ["v", hsh()], pk()],
            lambda: ["and_v", vpk(), hsh()],
            lambda: ["j", ["and_v", vpk(), older()]],
        ]
        b = [older, pk, hsh, after, pkh, mul, pk, *idioms, lambda: ["1"], lambda: ["0"]]
        if base == "B":
            return b
        if base == "V":
            return [lambda f=f: ["v", f()] for f in b[:-1]]
        if base == "K":
            return [lambda: ["pk_k", self.key()], lambda: ["pk_h", self.key()]]
        return [lambda f=f, w=w: [w, f()] for f in b[:-2] for w in ("a", "s")] + [lambda: ["a", ["1"]], lambda: ["a", ["0"]]]

    def leaf(self, req: str):
        """A leaf of the requirement; where none has it, any leaf of the basic type (the parent then repairs or falls back)."""
        cands = self.leaf_candidates(req[0])
        start = self.integer(0, len(cands) - 1)
        for off in range(len(cands)):
            i = (start + off) % len(cands)
            t = _CAND_TYPES[(self.ctx, req[0], i)]  # the type of a candidate does not depend on the key it takes
            if t is not None and "z" in t and "s" in t and "s" in req:
                continue  # 0 "needs a signature" only in the sense that nothing satisfies it
            if t is not None and set(req) <= t:
                return cands[i]()
        return cands[start]()

    # -- requirements handed down
    def child_reqs(self, name: str, req: str) -> list[str]:
        base, extra = req[0], set(req[1:])
        want_e = "e" if self.sane_bias else ""

        def r(b, *letters):
            return b + "".join(sorted(set("".join(letters))))

        def keep(letters):
            return "".join(c for c in letters if c in extra)

        if name == "c":
            return [r("K", keep("dones"))]
        if name == "d":
            return ["Vz"]
        if name == "j":
            return [r("Bn", keep("uos"), "f" if "e" in extra else "")]
        if name == "n":
            return [r("B", keep("dzonefs"))]
        if name == "t":
            return [r("V", keep("zons"))]
        if name in ("l", "u"):
            return [r("B", keep("us"), "f" if "e" in extra else "", "z" if "o" in extra else "")]
        if name == "v":
            return [r("B", keep("zons"))]
        if name == "a":
            return [r("B", keep("duefs"))]
        if name == "s":
            return [r("Bo", keep("duefs"))]
        if name == "and_v":
            first = self.integer(0, 1)
            x = r("V", "z" if extra & {"z", "o"} else "", keep("n"), "s" if "s" in extra and first == 0 else "")
            y = r(base, keep("uzof"), "s" if "s" in extra and first == 1 else "")
            return [x, y]
        if name == "and_b":
            first = self.integer(0, 1)
            x = r("B", keep("dn"), "es" if "e" in extra else "", "z" if "o" in extra else "", "s" if "s" in extra and first == 0 else "")
            y = r("W", keep("do"), "es" if "e" in extra else "", "s" if "s" in extra and first == 1 else "")
            return [x, y]
        if name == "or_b":
            x = r("Bd", want_e, keep("es"), "z" if "o" in extra else "")
            z = r("Wd", want_e, keep("eso"))
            if self.sane_bias and "s" not in extra:
                (x, z) = (x + "s", z) if self.integer(0, 1) else (x, z + "s")
            return [x, z]
        if name in ("or_c", "or_d"):
            x = r("Bdu", want_e, keep("so"), "z" if "z" in extra else "")
            z = r("V" if name == "or_c" else "B", keep("s"), "z" if extra & {"z", "o"} else "", keep("duef") if name == "or_d" else "")
            if self.sane_bias and "s" not in extra:
                (x, z) = (x + "s", z) if self.integer(0, 2) else (x, z + "s")
            return [x, z]
        if name == "or_i":
            flip = self.integer(0, 1)
            x = r(base, keep("usf"), "z" if "o" in extra else "")
            z = r(base, keep("usf"), "z" if "o" in extra else "")
            if "d" in extra:
                x, z = (x + "d", z) if flip else (x, z + "d")
            if "e" in extra:
                x, z = (x + "e", z + "f") if flip else (x + "f", z + "e")
            if self.sane_bias and "s" not in extra:
                (x, z) = (x + "s", z) if self.integer(0, 1) else (x, z + "s")
            return [x, z]
        if name in ("andor", "and_n"):
            x = r("Bdu", want_e, "s" if extra & {"s", "e", "f"} or self.sane_bias else "", "z" if "z" in extra else "")
            y = r(base, keep("uz"), "o" if "o" in extra else "")
            z = r(base, keep("udefsz"), "o" if "o" in extra else "")
            return [x, y] if name == "and_n" else [x, y, z]
        raise ValueError(name)

    # -- the recursion
    def gen(self, req: str, budget: int, top: bool = False):
        base = req[0]
        if budget <= 1 or (not top and self.integer(0, 9) < 2):
            return self.leaf(req)
        names = PRODUCTIONS[base]
        if "d" in req and base == "B":
            names = [n for n in names if n not in ("and_v", "t")]  # and_v() is never dissatisfiable
        if "e" in req:
            names = [n for n in names if n not in ("and_v", "t")]
        if "z" in req:
            names = [n for n in names if n not in ("c", "d", "j", "or_i", "l", "u", "s")]
        name = self.pick(names)
        if name == "and_n" and "d" not in req and base != "B":
            name = "andor"
        e = self.apply(name, req, budget - 1)
        t = self.typ(e)
        if t is not None and set(req) <= t:
            return e
        # repairs: a wrapper that adds what is missing
        if t is not None and base == "B" and "B" in t:
            missing = set(req) - t
            fixed = e
            if missing <= {"u"}:
                fixed = ["n", e]
            elif missing <= {"d", "u"} and "z" not in req and "o" not in req:
                fixed = ["or_i", ["n", e] if "u" not in t else e, ["0"]]
            elif missing <= {"d"} and "n" in t and "e" not in req:
                fixed = ["j", e]
            if fixed is not e:
                t2 = self.typ(fixed)
                if t2 is not None and set(req) <= t2:
                    return fixed
        return self.leaf(req)

    def apply(self, name: str, req: str, budget: int):
        if name == "thresh":
            n = self.integer(1, max(1, min(6, budget)))
            k = self.integer(1, n)
            extra = set(req[1:])
            per = max(1, budget // n)
            argreq = "du" + ("e" if self.sane_bias or "e" in extra else "") + ("s" if self.sane_bias or extra & {"s", "e"} else "")
            if "z" in extra:
                argreq += "z"
            args = [self.gen("B" + argreq, per)]
            for _ in range(n - 1):
                args.append(self.gen("W" + argreq, per))
            return build("thresh", args, k)
        reqs = self.child_reqs(name, req)
        shares = self.split(budget, len(reqs))
        return build(name, [self.gen(rq, b) for rq, b in zip(reqs, shares)])

    def split(self, budget: int, parts: int) -> list[int]:
        if parts == 1:
            return [budget]
        out = []
        left = budget
        for i in range(parts - 1):
            take = self.integer(1, max(1, left - (parts - 1 - i)))
            out.append(take)
            left = max(1, left - take)
        out.append(left)
        return out


def _candidate_types():
    """Types of the leaf candidates, per context and basic type, by position in `leaf_candidates` (they do not depend on the draws)."""
    table = {}

    class _Fixed:
        def __init__(self, ctx):
            self.g = _Gen(None, ctx, "blocks", "height", False, True)
            self.g.integer = lambda lo, hi: lo
            self.g.pick = lambda items: items[0]

    for ctx in (M.P2WSH, M.TAPSCRIPT):
        for base in "BVKW":
            f = _Fixed(ctx)
            for i, thunk in enumerate(f.g.leaf_candidates(base)):
                table[(ctx, base, i)] = M.analyse(thunk(), ctx).t
    return table


_CAND_TYPES = _candidate_types()


# ------------------------------------------------------------------------------------------------------------ strategies
def _ctx():
    return st.sampled_from([M.P2WSH, M.P2WSH, M.TAPSCRIPT])


def _kinds(draw):
    older = draw(st.sampled_from(["blocks", "blocks", "time", "time", "blocks", "mixed"]))
    after = draw(st.sampled_from(["height", "height", "time", "time", "height", "mixed"]))
    return older, after


@st.composite
def tree(draw, ctx=None, max_budget=40, top="Bs"):
    ctx = ctx or draw(_ctx())
    older, after = _kinds(draw)
    dup = draw(st.integers(0, 15)) == 0
    sane_bias = draw(st.integers(0, 9)) != 0
    g = _Gen(draw, ctx, older, after, dup, sane_bias)
    budget = draw(st.integers(2, max_budget))
    return ctx, g.gen(top if sane_bias else "B", budget, top=True), g


UNARY = ["a", "s", "c", "d", "v", "j", "n", "t", "l", "u"]


@st.composite
def chain(draw, ctx=None, max_len=120):
    ctx, e, g = draw(tree(ctx, max_budget=6, top="B"))
    tap = ctx == M.TAPSCRIPT
    t = M.analyse(e, ctx).t
    steps = draw(st.sampled_from([3, 6, 10, 20, 40, 80, max_len]))
    for _ in range(steps):
        options = []
        for w in UNARY:
            cand = build(w, [e])
            if w in ("t", "l", "u"):
                ct = M.combine_type(cand[0], cand, [t if x is e else M.leaf_type(x, tap) for x in cand[1:]], tap)
            else:
                ct = M.combine_type(w, cand, [t], tap)
            if ct is not None:
                options.append((cand, ct))
        if not options:
            break
        e, t = options[draw(st.integers(0, len(options) - 1))]
    # close to a B
    if "V" in t:
        e = ["and_v", e, ["1"]]
    elif "W" in t:
        e = ["and_b", ["c", ["pk_k", g.key()]], e]
    elif "K" in t:
        e = ["c", e]
    return ctx, e, g


WIDE_SHAPES = ["thresh", "and_b", "or_b", "and_v", "or_d", "or_i", "andor", "multi", "thresh_mixed", "or_c", "multis"]


@st.composite
def wide(draw, ctx=None, max_n=None):
    ctx = ctx or draw(_ctx())
    tap = ctx == M.TAPSCRIPT
    g = _Gen(draw, ctx, "blocks", "height", False, True)
    shape = draw(st.sampled_from(WIDE_SHAPES))
    if max_n is None:
        max_n = 1010 if tap and draw(st.integers(0, 11)) == 0 else 112
    n = draw(st.one_of(st.integers(1, min(max_n, 24)), st.integers(1, max_n), st.sampled_from([19, 20, 21, 49, 50, 51, 66, 67, 98, 99, 100, 101, 102, 998, 999, 1000, 1001]).map(lambda v: min(v, max_n))))
    elem = draw(st.sampled_from(["pk", "pk", "pkh", "hash", "pk_older"]))

    def el():
        if elem == "pk":
            return ["c", ["pk_k", g.key()]]
        if elem == "pkh":
            return ["c", ["pk_h", g.key()]]
        if elem == "hash":
            return ["and_v", ["v", ["c", ["pk_k", g.key()]]], ["sha256", g.digest()]] if shape in ("and_b", "and_v") else ["c", ["pk_k", g.key()]]
        return ["c", ["pk_k", g.key()]]

    def w(x):
        return [draw(st.sampled_from(["a", "s"])) if x[0] == "c" and x[1][0] == "pk_k" else "a", x]

    if shape == "multis":
        # an and_b() comb of multisigs whose witness elements add up to a total around the limit: 100 for P2WSH (k+1 each), 1000 for a
        # tapscript (one per key), cheap in ops and bytes so that the element count is the limit that decides
        if tap:
            total = draw(st.integers(994, 1004)) if max_n > 200 else draw(st.integers(2, 60))
            first = draw(st.integers(1, min(999, total - 1)))
            counts = [first, total - first] if total - first <= 999 else [first, 999, max(1, total - first - 999)]
            parts = [["multi_a", draw(st.sampled_from([1, c])), [g.key() for _ in range(c)]] for c in counts]
        else:
            total = draw(st.one_of(st.integers(96, 104), st.integers(4, 110)))
            parts = []
            left = total
            while left > 0:
                k = min(20, left - 1) if left > 1 else 1
                if left - (k + 1) == 1:  # never leave a remainder no multi() has (a multi takes at least two elements)
                    k -= 1
                nkeys = draw(st.sampled_from([k, k, 20])) if k <= 20 else k
                parts.append(["multi", k, [g.key() for _ in range(max(k, nkeys))]])
                left -= k + 1
        e = parts[0]
        for p in parts[1:]:
            e = ["and_b", e, ["a", p]]
    elif shape == "multi":
        if tap:
            n = min(n, 1001)
            k = draw(st.sampled_from([1, n, max(1, n // 2), max(1, n - 1)]))
            e = ["multi_a", k, [g.key() for _ in range(n)]]
        else:
            n = min(n, 22)
            k = draw(st.integers(1, n))
            e = ["multi", k, [g.key() for _ in range(n)]]
    elif shape in ("thresh", "thresh_mixed"):
        k = draw(st.sampled_from([1, n, max(1, n // 2), max(1, n - 1)]))
        args = [el()] + [w(el()) for _ in range(n - 1)]
        if shape == "thresh_mixed" and n >= 3:
            args[-1] = ["a", ["or_i", ["0"], ["n", ["older", g.older_value()]]]]  # aln:older(n)
        e = ["thresh", k, args]
    elif shape in ("and_b", "or_b"):
        e = el()
        for _ in range(n - 1):
            e = [shape, e, w(el())]
    elif shape == "and_v":
        e = el()
        for _ in range(n - 1):
            e = ["and_v", ["v", el()], e]
    elif shape == "or_c":
        e = ["v", el()]
        for _ in range(n - 1):
            e = ["or_c", el(), e]
        e = ["and_v", e, ["c", ["pk_k", g.key()]]]
    elif shape == "or_d":
        e = el()
        for _ in range(n - 1):
            e = ["or_d", el(), e]
    elif shape == "or_i":
        e = el()
        for _ in range(n - 1):
            e = ["or_i", e, el()] if draw(st.booleans()) else ["or_i", el(), e]
    else:
        e = el()
        for _ in range(n - 1):
            e = ["andor", el(), el(), e] if draw(st.booleans()) else ["andor", el(), e, el()]
    return ctx, e, g


def _paths(e, path=()):
    yield path, e
    name = e[0]
    if name in M.WRAPPERS:
        yield from _paths(e[1], (*path, 1))
    elif name in M.BINARY:
        yield from _paths(e[1], (*path, 1))
        yield from _paths(e[2], (*path, 2))
    elif name == "andor":
        for i in (1, 2, 3):
            yield from _paths(e[i], (*path, i))
    elif name == "thresh":
        for i, x in enumerate(e[2]):
            yield from _paths(x, (*path, 2, i))


def _replace(e, path, new):
    if not path:
        return new
    e = list(e)
    if isinstance(e[path[0]], list) and len(path) >= 2 and e[0] == "thresh" and path[0] == 2:
        args = list(e[2])
        args[path[1]] = _replace(args[path[1]], path[2:], new)
        e[2] = args
    else:
        e[path[0]] = _replace(e[path[0]], path[1:], new)
    return e


@st.composite
def mutant(draw, ctx=None):
    ctx, e, g = draw(tree(ctx, max_budget=16))
    nodes = list(_paths(e))
    path, x = nodes[draw(st.integers(0, len(nodes) - 1))]
    name = x[0]
    kind = draw(st.sampled_from(["swap", "leaf", "number", "wrap", "unwrap"]))
    new = x
    if kind == "swap" and name in M.WRAPPERS:
        new = [draw(st.sampled_from(M.WRAPPERS)), x[1]]
    elif kind == "swap" and name in M.BINARY:
        new = [draw(st.sampled_from(M.BINARY)), x[1], x[2]] if draw(st.booleans()) else [name, x[2], x[1]]
    elif kind == "swap" and name == "andor":
        i, j = draw(st.sampled_from([(1, 2), (1, 3), (2, 3)]))
        new = list(x)
        new[i], new[j] = new[j], new[i]
    elif kind == "swap" and name in ("pk_k", "pk_h"):
        new = ["pk_h" if name == "pk_k" else "pk_k", x[1]]
    elif kind == "swap" and name in ("multi", "multi_a"):
        new = ["multi" if name == "multi_a" else "multi_a", x[1], x[2]]
    elif kind == "number" and name in ("older", "after"):
        new = [name, draw(st.sampled_from([0, 1, 2**31 - 1, 2**31, 2**32, 0x400000, 499_999_999, 500_000_000]))]
    elif kind == "number" and name in ("multi", "multi_a", "thresh"):
        new = [name, draw(st.sampled_from([0, 1, len(x[2]), len(x[2]) + 1])), x[2]]
    elif kind == "number" and name in ("multi", "multi_a"):
        new = x
    elif kind == "wrap":
        new = build(draw(st.sampled_from(UNARY)), [x])
    elif kind == "unwrap" and name in M.WRAPPERS:
        new = x[1]
    else:
        cands = g.leaf_candidates(draw(st.sampled_from("BVKW")))
        new = cands[draw(st.integers(0, len(cands) - 1))]()
    return ctx, _replace(e, path, new), g


FAMILIES = ["tree", "tree", "tree", "tree", "chain", "wide", "mutant"]


@st.composite
def static_case(draw, families=None, ctx=None):
    family = draw(st.sampled_from(families or FAMILIES))
    if family == "tree":
        c, e, _ = draw(tree(ctx))
    elif family == "chain":
        c, e, _ = draw(chain(ctx))
    elif family == "wide":
        c, e, _ = draw(wide(ctx))
    else:
        c, e, _ = draw(mutant(ctx))
    return {"family": family, "ctx": c, "expr": e, "sugar": draw(st.integers(0, 2**48 - 1)), "xonly": draw(st.sampled_from([2**48 - 1, 2**48 - 1, 0, 0x5A5A5A5A5A5A]))}


# ------------------------------------------------------------------------------------------------------------ assignments
def lock_values(e):
    olders = sorted({x[1] for x in M.walk(e) if x[0] == "older"})
    afters = sorted({x[1] for x in M.walk(e) if x[0] == "after"})
    return olders, afters


def _expand(seed: int, n: int, per_mille: int) -> list[bool]:
    """n pseudo-random booleans of the given density, a function of the drawn seed alone."""
    out = []
    for i in range(n):
        h = hashlib.sha256(b"C15 avail %d %d" % (seed, i)).digest()
        out.append(int.from_bytes(h[:2], "big") % 1000 < per_mille)
    return out


@st.composite
def spend_case(draw, families=None, ctx=None):
    family = draw(st.sampled_from(families or ["tree", "tree", "tree", "tree", "chain", "wide"]))
    if family == "tree":
        c, e, _ = draw(tree(ctx, max_budget=32))
    elif family == "chain":
        c, e, _ = draw(chain(ctx, max_len=40))
    else:
        c, e, _ = draw(wide(ctx, max_n=draw(st.sampled_from([6, 12, 24, 40]))))
    keys = sorted(set(M.keys_of(e)))
    digests = sorted({(x[0], x[1]) for x in M.walk(e) if x[0] in M.HASHES})
    density = draw(st.sampled_from([1000, 1000, 1000, 850, 850, 600, 350, 0]))
    if len(keys) <= 24:
        signing = [k for k in keys if density == 1000 or draw(st.integers(0, 999)) < density]
    else:
        flags = _expand(draw(st.integers(0, 2**32)), len(keys), density)
        signing = [k for k, f in zip(keys, flags) if f]
    hd = draw(st.sampled_from([1000, 1000, 700, 300, 0]))
    known = [d[1] for d in digests if hd == 1000 or draw(st.integers(0, 999)) < hd]
    olders, afters = lock_values(e)
    lock_opts = [0, 0, 499_999_999, 2**31 - 1, 2**32 - 1, 500_000_000]
    for v in afters:
        lock_opts += [v, v, v, v - 1, v + 1]
    seq_opts = [0xFFFFFFFF, 0xFFFFFFFE, 0, 0xFFFF, 0x40FFFF]
    for v in olders:
        low = v & 0x40FFFF
        seq_opts += [v, v, v, low, v - 1 if v & 0xFFFF else v, v + 1, v | (1 << 31), v ^ (1 << 22), low | 0x00310000, (low - 1 if low & 0xFFFF else low) | 0x00310000, low & 0xFFFF]
    version = draw(st.sampled_from([2, 2, 2, 2, 2, 3, 1, 0]))
    hashtypes = [0, 0, 1, 2, 3, 0x81, 0x82, 0x83] if c == M.TAPSCRIPT else [1, 1, 1, 2, 3, 0x81, 0x82, 0x83]
    return {
        "family": family,
        "ctx": c,
        "expr": e,
        "sugar": draw(st.integers(0, 2**48 - 1)),
        "xonly": draw(st.sampled_from([2**48 - 1, 0, 0x5A5A5A5A5A5A])),
        "signing": signing,
        "known": known,
        "lock_time": max(0, min(2**32 - 1, draw(st.sampled_from(lock_opts)))),
        "sequence": max(0, min(2**32 - 1, draw(st.sampled_from(seq_opts)))),
        "version": version,
        "hashtype": draw(st.sampled_from(hashtypes)),
        "sig_keyed_by": draw(st.sampled_from(["script", "sec"])),
        "amount": draw(st.sampled_from([0, 1, 50_000, 21_000_000 * 100_000_000])),
    }
