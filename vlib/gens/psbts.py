"""Hypothesis strategies for VALID btclib Psbt / PsbtIn / PsbtOut objects (BIP174 v0, BIP370 v2).

A case is pure JSON; `build_psbt(case)` / `build_psbt_in(case)` / `build_psbt_out(case)` are
pure deterministic constructors through the public classes with check_validity=True.

Case format (keys are the dataclass attribute names):
  * scalars: int, or hex string for bytes;  ABSENT = None
  * map-valued fields: list of [key_hex, value] pairs (order explicit);  ABSENT = []
      value is a hex string, except
        hd_key_paths                 value = {"fingerprint": hex8, "path": [u32, ...]}
        taproot_hd_key_paths         value = [[leaf_hash_hex, ...], {"fingerprint", "path"}]
        taproot_leaf_scripts         key = control block, value = [script_hex, leaf_version]
        musig2_participant_pub_keys  value = [pub_key_hex, ...]
  * final_script_witness: list of hex stack items; taproot_tree: list of [depth, leaf_ver, script_hex]
  * non_witness_utxo: a vlib.gens.common.tx_case-shaped dict (built by vlib.build.tx)
  * witness_utxo: {"value": int, "spk": hex}
`is_present(v)` says whether a case value counts as a present field (0, "" are present).

Rules of btclib's assert_valid that are encoded by construction (no assume/filter):
  Psbt     : version in {0,2}; every input has previous_tx_id and output_index; the unsigned tx
             is valid as a template: distinct outpoints, no coinbase outpoint, output amounts
             sum <= 21e14, u32 tx_version / lock time; required lock times of the inputs must be
             all satisfiable by one kind (height or time); non_witness_utxo.id == previous_tx_id
             and output_index < len(vout); xpub keys 78 bytes with pairwise distinct origins.
             v0: no tx_modifiable, no silent-payment field anywhere, no required_*_lock_time.
                 (sequence, amount, fallback_lock_time always present: they ARE the unsigned tx;
                  pass canonical=False to let them be None, which v0 serialization normalizes)
             v2: amount on every output and (script_pub_key or sp_v0_info).
  PsbtIn   : partial_sigs = sec pub key (33/65, on curve) -> strict DER (r = x(kG) mod n: dsa.Sig wants r
             congruent to an x-coordinate; s in 1..n-1, high s too) + 1 byte; sig_hash_type in
             SIG_HASH_TYPES (0 included); hd_key_paths keys 33/65(/78) bytes, distinct origins;
             preimages hash to their key; tap key sig 64/65 bytes (65th byte a non-zero sighash
             type); tap script sig keys 64 bytes; control blocks 33+32k; tap bip32 keys 32
             bytes; tap internal key 32 bytes; musig2 keys compressed points, nonce 66 / partial
             sig 32 bytes; sp scan keys compressed points, share 33 / proof 64 bytes; time lock
             >= 500000000, 0 < height lock < 500000000.
  PsbtOut  : sp_v0_info = 2 compressed points; sp_v0_label requires sp_v0_info.
  unknown  : key's first byte is never a type the parser knows (in either version) for its scope;
             0xFC proprietary keys included.
A finalized input (final_script_sig / final_script_witness) is drawn "clean" (only what Core keeps
beside the final fields) half of the time and "dirty" (signing fields still there: assert_valid
accepts it, serialization drops them) the other half; dirty_finalized=False forbids the latter.
"""

from __future__ import annotations

import hashlib
from functools import lru_cache

from hypothesis import strategies as st

from btclib.bip32 import BIP32KeyOrigin
from btclib.curves import mult, sec_point
from btclib.hashes import hash160, hash256, ripemd160, sha256
from btclib.psbt import Psbt, PsbtIn, PsbtOut
from btclib.script.script_pub_key import ScriptPubKey
from btclib.script.witness import Witness
from btclib.tx import TxOut
from vlib import build
from vlib.gens.common import MAX_MONEY, amount, hexbytes, push, sequence, u32

N = 0xFFFFFFFFFFFFFFFFFFFFFFFFFFFFFFFEBAAEDCE6AF48A03BBFD25E8CD0364141
LOCK_TIME_THRESHOLD = 500_000_000
SIG_HASH_TYPES = [0, 1, 2, 3, 0x81, 0x82, 0x83]

# first key byte the parsers dispatch on (psbt.py / psbt_in.py / psbt_out.py), v0 and v2 together
KNOWN_GLOBAL_TYPES = frozenset(range(0x00, 0x0A)) | {0xFB}
KNOWN_IN_TYPES = frozenset(range(0x00, 0x09)) | frozenset(range(0x0A, 0x19)) | frozenset(range(0x1A, 0x1F))
KNOWN_OUT_TYPES = frozenset(range(0x00, 0x0B))

IN_FIELDS = [
    "non_witness_utxo", "witness_utxo", "partial_sigs", "sig_hash_type", "redeem_script",
    "witness_script", "hd_key_paths", "final_script_sig", "final_script_witness",
    "ripemd160_preimages", "sha256_preimages", "hash160_preimages", "hash256_preimages",
    "taproot_key_spend_signature", "taproot_script_spend_signatures", "taproot_leaf_scripts",
    "taproot_hd_key_paths", "taproot_internal_key", "taproot_merkle_root", "unknown",
    "previous_tx_id", "output_index", "sequence", "required_time_lock_time",
    "required_height_lock_time", "musig2_participant_pub_keys", "musig2_pub_nonces",
    "musig2_partial_sigs", "sp_ecdh_shares", "sp_dleq_proofs",
]  # fmt: skip
OUT_FIELDS = [
    "redeem_script", "witness_script", "hd_key_paths", "taproot_internal_key", "taproot_tree",
    "taproot_hd_key_paths", "unknown", "amount", "script_pub_key", "musig2_participant_pub_keys",
    "sp_v0_info", "sp_v0_label",
]  # fmt: skip
GLOBAL_FIELDS = [
    "hd_key_paths", "unknown", "fallback_lock_time", "tx_modifiable", "signed_message",
    "sp_ecdh_shares", "sp_dleq_proofs",
]  # fmt: skip
# what serialization leaves out of a finalized input (psbt_in._DROPPED_ONCE_FINALIZED)
SIGNING_FIELDS = [
    "partial_sigs", "sig_hash_type", "redeem_script", "witness_script", "hd_key_paths",
    "ripemd160_preimages", "sha256_preimages", "hash160_preimages", "hash256_preimages",
    "taproot_key_spend_signature", "taproot_script_spend_signatures", "taproot_leaf_scripts",
    "taproot_hd_key_paths", "taproot_internal_key", "taproot_merkle_root",
    "musig2_participant_pub_keys", "musig2_pub_nonces", "musig2_partial_sigs",
]  # fmt: skip


def is_present(value) -> bool:
    """Whether a case value is a present field: None and [] are absent, 0 and "" are present."""
    return value is not None and value != []


# ---------------------------------------------------------------------------------------------
# pure helpers (deterministic functions of drawn values)
# ---------------------------------------------------------------------------------------------


def _expand(seed: int, n: int) -> bytes:
    out = b""
    i = 0
    while len(out) < n:
        out += hashlib.sha256(b"vlib.psbts" + seed.to_bytes(8, "big") + i.to_bytes(2, "big")).digest()
        i += 1
    return out[:n]


@lru_cache(maxsize=4096)
def _point(secret: int):
    return mult(secret)


def pub_key_hex(secret: int, compressed: bool = True) -> str:
    return sec_point.bytes_from_point(_point(secret), compressed=compressed).hex()


def x_only_hex(secret: int) -> str:
    return _point(secret)[0].to_bytes(32, "big").hex()


def _der_int(i: int) -> bytes:
    b = i.to_bytes((i.bit_length() + 7) // 8 or 1, "big")
    if b[0] & 0x80:
        b = b"\x00" + b
    return b"\x02" + bytes([len(b)]) + b


def der_sig(r: int, s: int) -> bytes:
    body = _der_int(r) + _der_int(s)
    return b"\x30" + bytes([len(body)]) + body


def _compact_size(n: int) -> bytes:
    if n < 0xFD:
        return bytes([n])
    if n <= 0xFFFF:
        return b"\xfd" + n.to_bytes(2, "little")
    return b"\xfe" + n.to_bytes(4, "little")


def _xpub(secret: int, path: list[int], seed: int) -> str:
    """78-byte BIP32 extended public key whose depth/child number agree with the path."""
    depth = len(path) & 0xFF
    child = path[-1] if path else 0
    parent_fp = _expand(seed, 4) if path else b"\x00" * 4
    return (
        bytes.fromhex("0488b21e")
        + bytes([depth])
        + parent_fp
        + child.to_bytes(4, "big")
        + _expand(seed + 1, 32)
        + bytes.fromhex(pub_key_hex(secret))
    ).hex()


# ---------------------------------------------------------------------------------------------
# leaf strategies
# ---------------------------------------------------------------------------------------------


def _coin(draw, num: int = 1, den: int = 2) -> bool:
    """True with probability num/den; shrinks towards False (absent)."""
    return draw(st.integers(0, den - 1)) >= den - num


def _blob(n: int):
    """n bytes as hex: all-zero, all-ff or a hash expansion of a small seed (cheap to draw)."""
    return st.one_of(
        st.integers(0, 0xFFFF).map(lambda s: _expand(s, n).hex()),
        st.sampled_from(["00" * n, "ff" * n]),
    )


def _secret():
    return st.one_of(st.integers(1, 5), st.integers(1, 0xFFFF), st.sampled_from([N - 1, N // 2]), st.integers(1, N - 1))


def _sec_key(uncompressed_ok: bool = True):
    comp = st.integers(0, 3).map(lambda i: i != 3) if uncompressed_ok else st.just(True)
    return st.builds(pub_key_hex, _secret(), comp)


def _comp_key():
    return _secret().map(pub_key_hex)


def _x_only():
    return _secret().map(x_only_hex)


def _scalar_s():
    return st.one_of(st.sampled_from([1, 0x7F, 0x80, 1 << 255, N - 1, N // 2]), st.integers(1, N - 1), st.integers(1, 0xFFFF))


def _scalar_r():
    """dsa.Sig.assert_valid wants r to be (congruent to) the x-coordinate of a curve point: r = x(kG) mod n."""
    return _secret().map(lambda k: _point(k)[0] % N or 1)


def _ecdsa_sig():
    ht = st.one_of(st.sampled_from([1, 2, 3, 0x81, 0x82, 0x83]), st.sampled_from([0, 0xFF]), st.integers(0, 255))
    return st.builds(lambda r, s, h: (der_sig(r, s) + bytes([h])).hex(), _scalar_r(), _scalar_s(), ht)


def _schnorr_sig():
    """64 bytes (SIGHASH_DEFAULT) or 64 bytes + explicit non-default sighash type."""
    return st.builds(
        lambda body, h: body + ("" if h is None else f"{h:02x}"),
        _blob(64),
        st.sampled_from([None, None, 1, 2, 3, 0x81, 0x82, 0x83]),
    )


def _path():
    idx = st.one_of(st.sampled_from([0, 1, 0x7FFFFFFF, 0x80000000, 0x80000001, 0x8000002C, 0xFFFFFFFF]), st.integers(0, 0xFFFFFFFF))
    return st.lists(idx, max_size=4)


def _origin():
    return st.builds(lambda fp, p: {"fingerprint": fp, "path": p}, _blob(4), _path())


def _origin_id(o) -> tuple:
    return (o["fingerprint"], tuple(o["path"]))


def _script(min_size: int = 0):
    return st.one_of(
        hexbytes(min_size, 12),
        st.builds(lambda a, b: (b"\x51" + push(bytes.fromhex(a)) + push(bytes.fromhex(b)) + b"\x52\xae").hex(), _comp_key(), _comp_key()),
        _comp_key().map(lambda k: (push(bytes.fromhex(k)) + b"\xac").hex()),
        _blob(20).map(lambda h: "0014" + h),
        _blob(32).map(lambda h: "0020" + h),
        _x_only().map(lambda k: "20" + k + "ac"),
    )


def _spk(min_size: int = 0):
    return st.one_of(
        hexbytes(min_size, 12),
        _blob(20).map(lambda h: "76a914" + h + "88ac"),
        _blob(20).map(lambda h: "a914" + h + "87"),
        _blob(20).map(lambda h: "0014" + h),
        _blob(32).map(lambda h: "0020" + h),
        _x_only().map(lambda k: "5120" + k),
        hexbytes(0, 8).map(lambda d: "6a" + push(bytes.fromhex(d)).hex()),
        st.sampled_from(["00", "6a", "51", "4c", "05ab"]),
    )


def _hd_key_paths(key_strategy, max_size: int = 3):
    """1..max_size entries, distinct keys and (as assert_valid_hd_key_paths demands) distinct origins."""
    return st.lists(
        st.tuples(key_strategy, _origin()).map(list),
        min_size=1,
        max_size=max_size,
        unique_by=(lambda e: e[0], lambda e: _origin_id(e[1])),
    )


def _map(key_strategy, value_strategy, max_size: int = 3):
    return st.lists(st.tuples(key_strategy, value_strategy).map(list), min_size=1, max_size=max_size, unique_by=lambda e: e[0])


def _preimages(hash_function):
    pre = st.one_of(st.just(b""), st.binary(max_size=12), st.binary(min_size=32, max_size=32))
    return st.lists(pre, min_size=1, max_size=3, unique=True).map(lambda ps: [[hash_function(p).hex(), p.hex()] for p in ps])


def _unknown(known_types: frozenset, max_size: int = 2):
    """1..max_size unknown pairs; at least the type byte in the key, never a known type; 0xFC proprietary."""
    free = sorted(set(range(0x00, 0xFD)) - known_types - {0xFC})
    plain = st.builds(
        lambda t, d: bytes([t]).hex() + d,
        st.one_of(st.sampled_from([free[0], free[1], free[-1]]), st.sampled_from(free)),
        hexbytes(0, 6),
    )
    proprietary = st.builds(
        lambda ident, sub, d: (b"\xfc" + _compact_size(len(ident)) + ident + _compact_size(sub)).hex() + d,
        st.one_of(st.just(b""), st.just(b"vlib"), st.binary(max_size=5)),
        st.sampled_from([0, 1, 0xFC, 0xFD, 0xFFFF]),
        hexbytes(0, 6),
    )
    value = st.one_of(st.just(""), hexbytes(0, 12), _blob(40))
    return _map(st.one_of(plain, proprietary), value, max_size)


def _musig2_participants():
    return _map(_comp_key(), st.lists(_comp_key(), min_size=1, max_size=3))


def _musig2_session(value_size: int):
    """key = participant pub key + aggregate pub key [+ tap leaf hash]."""
    key = st.builds(lambda p, a, leaf: p + a + (leaf or ""), _comp_key(), _comp_key(), st.one_of(st.none(), _blob(32)))
    return _map(key, _blob(value_size))


def _control_block():
    """33 + 32k bytes: (leaf version | parity), x-only internal key, k merkle path nodes."""
    first = st.one_of(st.sampled_from([0xC0, 0xC1]), st.sampled_from([0x00, 0x01, 0xC2, 0xFE, 0xFF]), st.integers(0, 255))
    return st.builds(
        lambda f, k, nodes: f"{f:02x}" + k + "".join(nodes),
        first,
        _x_only(),
        st.lists(_blob(32), max_size=3),
    )


@st.composite
def _leaf_scripts(draw):
    out = []
    for cb in draw(st.lists(_control_block(), min_size=1, max_size=3, unique=True)):
        script = draw(st.one_of(st.just(""), _script()))
        consistent = draw(st.integers(0, 3)) != 3
        version = (int(cb[:2], 16) & 0xFE) if consistent else draw(st.sampled_from([0, 1, 0xC0, 0xC2, 0xFF]))
        out.append([cb, [script, version]])
    return out


def _taproot_hd_key_paths():
    value = st.tuples(st.lists(_blob(32), max_size=2), _origin()).map(list)
    return _map(_x_only(), value)


def _taproot_tree():
    """DFS (depth, leaf version, script) triples of a complete binary tree."""
    shapes = [[0], [1, 1], [1, 2, 2], [2, 2, 1], [2, 2, 2, 2], [1, 2, 3, 3]]
    leaf = st.tuples(st.sampled_from([0xC0, 0xC0, 0xC2, 0x00, 0xFE]), st.one_of(st.just(""), _script()))
    return st.sampled_from(shapes).flatmap(
        lambda depths: st.lists(leaf, min_size=len(depths), max_size=len(depths)).map(
            lambda leaves: [[d, v, s] for d, (v, s) in zip(depths, leaves)]
        )
    )


def _witness_stack():
    return st.one_of(st.just([""]), st.lists(st.one_of(st.just(""), hexbytes(0, 10), _blob(33)), min_size=1, max_size=3))


def _amounts(draw, n: int) -> list[int]:
    """n amounts whose sum does not exceed MAX_MONEY (clipped on a running budget)."""
    out, budget = [], MAX_MONEY
    for _ in range(n):
        a = min(draw(amount()), budget)
        budget -= a
        out.append(a)
    return out


@st.composite
def _utxo_tx_case(draw):
    """A fully valid (not template) transaction to be used as non_witness_utxo."""
    if draw(st.integers(0, 7)) == 7:  # a coinbase: its outputs are spendable as well
        vin = [
            {
                "txid": "00" * 32,
                "vout": 0xFFFFFFFF,
                "script_sig": draw(hexbytes(2, 8)),
                "sequence": draw(sequence()),
                "witness": draw(st.sampled_from([[], ["00" * 32]])),
            }
        ]
    else:
        vin = []
        for _ in range(draw(st.integers(1, 2))):
            txid, vout = draw(_blob(32)), draw(st.one_of(st.integers(0, 3), u32()))
            if txid == "00" * 32 and vout == 0xFFFFFFFF:
                vout = 0
            while any((txid, vout) == (i["txid"], i["vout"]) for i in vin):
                vout = (vout + 1) % 0xFFFFFFFF
            vin.append(
                {
                    "txid": txid,
                    "vout": vout,
                    "script_sig": draw(hexbytes(0, 8)),
                    "sequence": draw(sequence()),
                    "witness": draw(st.one_of(st.just([]), st.lists(hexbytes(0, 6), max_size=2))),
                }
            )
    nout = draw(st.integers(1, 3))
    vout = [{"value": v, "spk": draw(_spk())} for v in _amounts(draw, nout)]
    return {"version": draw(st.one_of(st.sampled_from([1, 2]), u32())), "lock_time": draw(u32()), "vin": vin, "vout": vout}


def _utxo_id(tx_case: dict) -> str:
    return build.tx(tx_case).id.hex()


def _height_lock():
    return st.one_of(st.sampled_from([1, 2, LOCK_TIME_THRESHOLD - 1]), st.integers(1, LOCK_TIME_THRESHOLD - 1))


def _time_lock():
    return st.one_of(st.sampled_from([LOCK_TIME_THRESHOLD, LOCK_TIME_THRESHOLD + 1, 0xFFFFFFFF]), st.integers(LOCK_TIME_THRESHOLD, 0xFFFFFFFF))


def _sequence():
    return st.one_of(st.sampled_from([0, 0, 0xFFFFFFFF, 0xFFFFFFFE, 0xFFFFFFFD]), sequence())


# ---------------------------------------------------------------------------------------------
# PsbtIn
# ---------------------------------------------------------------------------------------------


def _draw_input(draw, version: int, in_psbt: bool, seen: set, lock_kind: str | None, canonical: bool, dirty_finalized: bool) -> dict:
    c: dict = {f: ([] if f in _IN_MAPS else None) for f in IN_FIELDS}

    # -- the outpoint and the utxos ------------------------------------------------------------
    # lone v0 input map: outpoint and sequence are not part of it (they live in the unsigned tx)
    has_outpoint_fields = in_psbt or version == 2
    if _coin(draw):
        c["non_witness_utxo"] = draw(_utxo_tx_case())
    if has_outpoint_fields:
        if c["non_witness_utxo"] is not None:
            # lone input: nothing checks the link, still keep it true when the fields are there
            if in_psbt or _coin(draw, 3, 4):
                c["previous_tx_id"] = _utxo_id(c["non_witness_utxo"])
                c["output_index"] = draw(st.integers(0, len(c["non_witness_utxo"]["vout"]) - 1))
        else:
            if in_psbt or _coin(draw):
                c["previous_tx_id"] = draw(_blob(32))
            if in_psbt or _coin(draw):
                c["output_index"] = draw(st.one_of(st.sampled_from([0, 0, 1, 0xFFFFFFFF]), st.integers(0, 5), u32()))
        if in_psbt:
            _dedupe_outpoint(c, seen)
        if version == 0 and canonical:
            c["sequence"] = draw(_sequence())
        elif _coin(draw, 2, 3):
            c["sequence"] = draw(_sequence())
    if _coin(draw):
        utxo, index = c["non_witness_utxo"], c["output_index"]
        if utxo is not None and index is not None and index < len(utxo["vout"]) and _coin(draw, 3, 4):
            c["witness_utxo"] = dict(utxo["vout"][index])  # the two utxo fields agree
        else:
            c["witness_utxo"] = {"value": draw(amount()), "spk": draw(_spk())}

    # -- v2 only: lock time requirements and BIP375 ----------------------------------------------
    if version == 2:
        # lock_kind (drawn once per psbt) is the kind every requiring input must offer
        kind = lock_kind or draw(st.sampled_from(["height", "time"]))
        choice = draw(st.sampled_from(["none", "none", "kind", "both"]))
        if choice == "both" or (choice == "kind" and kind == "height"):
            c["required_height_lock_time"] = draw(_height_lock())
        if choice == "both" or (choice == "kind" and kind == "time"):
            c["required_time_lock_time"] = draw(_time_lock())
        if _coin(draw):
            c["sp_ecdh_shares"] = draw(_map(_comp_key(), _comp_key()))
        if _coin(draw):
            c["sp_dleq_proofs"] = draw(_map(_comp_key(), _blob(64)))

    # -- finalization ----------------------------------------------------------------------------
    if _coin(draw, 1, 5):
        c["final_script_sig"] = draw(st.one_of(hexbytes(1, 12), _ecdsa_sig().map(lambda s: push(bytes.fromhex(s)).hex())))
    if _coin(draw, 1, 5):
        c["final_script_witness"] = draw(_witness_stack())
    finalized = c["final_script_sig"] is not None or c["final_script_witness"] != []
    keep_signing_fields = not finalized or (dirty_finalized and _coin(draw))

    if _coin(draw):
        c["unknown"] = draw(_unknown(KNOWN_IN_TYPES))
    if not keep_signing_fields:
        return c

    # -- what a signer reads and writes ----------------------------------------------------------
    if _coin(draw):
        c["partial_sigs"] = draw(_map(_sec_key(), _ecdsa_sig()))
    if _coin(draw, 3, 5):
        c["sig_hash_type"] = draw(st.sampled_from([0, 0, 1, 1] + SIG_HASH_TYPES))
    if _coin(draw):
        c["redeem_script"] = draw(_script(1))
    if _coin(draw):
        c["witness_script"] = draw(_script(1))
    if _coin(draw):
        c["hd_key_paths"] = draw(_hd_key_paths(_sec_key()))
    for name, fun in (("ripemd160_preimages", ripemd160), ("sha256_preimages", sha256), ("hash160_preimages", hash160), ("hash256_preimages", hash256)):
        if _coin(draw):
            c[name] = draw(_preimages(fun))
    if _coin(draw):
        c["taproot_key_spend_signature"] = draw(_schnorr_sig())
    if _coin(draw):
        c["taproot_script_spend_signatures"] = draw(_map(st.builds(lambda k, h: k + h, _x_only(), _blob(32)), _schnorr_sig()))
    if _coin(draw):
        c["taproot_leaf_scripts"] = draw(_leaf_scripts())
    if _coin(draw):
        c["taproot_hd_key_paths"] = draw(_taproot_hd_key_paths())
    if _coin(draw):
        c["taproot_internal_key"] = draw(_x_only())
    if _coin(draw):
        c["taproot_merkle_root"] = draw(_blob(32))
    if _coin(draw):
        c["musig2_participant_pub_keys"] = draw(_musig2_participants())
    if _coin(draw):
        c["musig2_pub_nonces"] = draw(_musig2_session(66))
    if _coin(draw):
        c["musig2_partial_sigs"] = draw(_musig2_session(32))
    return c


_IN_MAPS = frozenset(
    {
        "partial_sigs", "hd_key_paths", "final_script_witness", "ripemd160_preimages", "sha256_preimages",
        "hash160_preimages", "hash256_preimages", "taproot_script_spend_signatures", "taproot_leaf_scripts",
        "taproot_hd_key_paths", "unknown", "musig2_participant_pub_keys", "musig2_pub_nonces",
        "musig2_partial_sigs", "sp_ecdh_shares", "sp_dleq_proofs",
    }
)  # fmt: skip
_OUT_MAPS = frozenset({"hd_key_paths", "taproot_tree", "taproot_hd_key_paths", "unknown", "musig2_participant_pub_keys"})


def _dedupe_outpoint(c: dict, seen: set) -> None:
    """Make (previous_tx_id, output_index) new and not the coinbase marker, deterministically."""

    def bad() -> bool:
        op = (c["previous_tx_id"], c["output_index"])
        return op in seen or op == ("00" * 32, 0xFFFFFFFF)

    while bad():
        utxo = c["non_witness_utxo"]
        if utxo is None:
            c["output_index"] = (c["output_index"] + 1) % 0xFFFFFFFF
            continue
        free = [j for j in range(len(utxo["vout"])) if (c["previous_tx_id"], j) not in seen]
        if free:
            c["output_index"] = free[0]
        else:  # every output of this very transaction is already spent: make it another one
            utxo["lock_time"] = (utxo["lock_time"] + 1) & 0xFFFFFFFF
            c["previous_tx_id"] = _utxo_id(utxo)
    seen.add((c["previous_tx_id"], c["output_index"]))


@st.composite
def input_case(draw, version: int | None = None, dirty_finalized: bool = True):
    """A lone PsbtIn of a psbt of the given version (drawn from {0, 2} if None).

    For version 0 the outpoint, the sequence, the lock times and the silent payment fields are
    absent: the v0 input map does not hold them. The case carries "psbt_version" for
    PsbtIn.serialize/parse(psbt_version=...).
    """
    v = draw(st.sampled_from([0, 2])) if version is None else version
    c = _draw_input(draw, v, False, set(), None, True, dirty_finalized)
    c["psbt_version"] = v
    return c


def _origin_obj(o: dict) -> BIP32KeyOrigin:
    return BIP32KeyOrigin(bytes.fromhex(o["fingerprint"]), list(o["path"]))


def _bytes_map(pairs) -> dict[bytes, bytes]:
    return {bytes.fromhex(k): bytes.fromhex(v) for k, v in pairs or []}


def _hd_map(pairs) -> dict[bytes, BIP32KeyOrigin]:
    return {bytes.fromhex(k): _origin_obj(o) for k, o in pairs or []}


def _tap_hd_map(pairs):
    return {bytes.fromhex(k): ([bytes.fromhex(h) for h in v[0]], _origin_obj(v[1])) for k, v in pairs or []}


def _musig2_map(pairs):
    return {bytes.fromhex(k): [bytes.fromhex(x) for x in v] for k, v in pairs or []}


def _hex(value) -> bytes:
    return b"" if value is None else bytes.fromhex(value)


def build_tx_out(o: dict) -> TxOut:
    return TxOut(o["value"], ScriptPubKey(bytes.fromhex(o["spk"])))


def build_psbt_in(case: dict) -> PsbtIn:
    g = case.get
    return PsbtIn(
        non_witness_utxo=build.tx(g("non_witness_utxo")) if g("non_witness_utxo") is not None else None,
        witness_utxo=build_tx_out(g("witness_utxo")) if g("witness_utxo") is not None else None,
        partial_sigs=_bytes_map(g("partial_sigs")),
        sig_hash_type=g("sig_hash_type"),
        redeem_script=_hex(g("redeem_script")),
        witness_script=_hex(g("witness_script")),
        hd_key_paths=_hd_map(g("hd_key_paths")),
        final_script_sig=_hex(g("final_script_sig")),
        final_script_witness=Witness([bytes.fromhex(x) for x in g("final_script_witness") or []]),
        ripemd160_preimages=_bytes_map(g("ripemd160_preimages")),
        sha256_preimages=_bytes_map(g("sha256_preimages")),
        hash160_preimages=_bytes_map(g("hash160_preimages")),
        hash256_preimages=_bytes_map(g("hash256_preimages")),
        taproot_key_spend_signature=_hex(g("taproot_key_spend_signature")),
        taproot_script_spend_signatures=_bytes_map(g("taproot_script_spend_signatures")),
        taproot_leaf_scripts={bytes.fromhex(k): (bytes.fromhex(v[0]), v[1]) for k, v in g("taproot_leaf_scripts") or []},
        taproot_hd_key_paths=_tap_hd_map(g("taproot_hd_key_paths")),
        taproot_internal_key=_hex(g("taproot_internal_key")),
        taproot_merkle_root=_hex(g("taproot_merkle_root")),
        unknown=_bytes_map(g("unknown")),
        previous_tx_id=_hex(g("previous_tx_id")),
        output_index=g("output_index"),
        sequence=g("sequence"),
        required_time_lock_time=g("required_time_lock_time"),
        required_height_lock_time=g("required_height_lock_time"),
        musig2_participant_pub_keys=_musig2_map(g("musig2_participant_pub_keys")),
        musig2_pub_nonces=_bytes_map(g("musig2_pub_nonces")),
        musig2_partial_sigs=_bytes_map(g("musig2_partial_sigs")),
        sp_ecdh_shares=_bytes_map(g("sp_ecdh_shares")),
        sp_dleq_proofs=_bytes_map(g("sp_dleq_proofs")),
        check_validity=True,
    )


# ---------------------------------------------------------------------------------------------
# PsbtOut
# ---------------------------------------------------------------------------------------------


def _draw_output(draw, version: int, in_psbt: bool, amount_value: int | None, canonical: bool) -> dict:
    c: dict = {f: ([] if f in _OUT_MAPS else None) for f in OUT_FIELDS}
    if _coin(draw):
        c["redeem_script"] = draw(_script(1))
    if _coin(draw):
        c["witness_script"] = draw(_script(1))
    if _coin(draw):
        c["hd_key_paths"] = draw(_hd_key_paths(_sec_key()))
    if _coin(draw):
        c["taproot_internal_key"] = draw(_x_only())
    if _coin(draw):
        c["taproot_tree"] = draw(_taproot_tree())
    if _coin(draw):
        c["taproot_hd_key_paths"] = draw(_taproot_hd_key_paths())
    if _coin(draw):
        c["musig2_participant_pub_keys"] = draw(_musig2_participants())
    if _coin(draw):
        c["unknown"] = draw(_unknown(KNOWN_OUT_TYPES))

    if version == 2:
        if _coin(draw):
            c["sp_v0_info"] = draw(st.builds(lambda a, b: a + b, _comp_key(), _comp_key()))
            if _coin(draw, 2, 3):
                c["sp_v0_label"] = draw(st.one_of(st.just(0), st.sampled_from([1, 0xFFFFFFFF]), u32()))
    if in_psbt:
        # v0: amount and script are the unsigned tx's output; v2: amount mandatory, and a script
        # unless the silent payment address stands in for it
        if version == 0:
            if canonical or _coin(draw, 2, 3):
                c["amount"] = amount_value
            if _coin(draw, 4, 5):
                c["script_pub_key"] = draw(_spk(1))
        else:
            c["amount"] = amount_value
            if c["sp_v0_info"] is None or _coin(draw):
                c["script_pub_key"] = draw(_spk(1))
    elif version == 2:  # lone v2 output map: nothing is mandatory
        if _coin(draw):
            c["amount"] = amount_value
        if _coin(draw):
            c["script_pub_key"] = draw(_spk(1))
    return c


@st.composite
def output_case(draw, version: int | None = None):
    """A lone PsbtOut of a psbt of the given version; v0: no amount/script/silent payment field."""
    v = draw(st.sampled_from([0, 2])) if version is None else version
    c = _draw_output(draw, v, False, draw(amount()), True)
    c["psbt_version"] = v
    return c


def build_psbt_out(case: dict) -> PsbtOut:
    g = case.get
    return PsbtOut(
        redeem_script=_hex(g("redeem_script")),
        witness_script=_hex(g("witness_script")),
        hd_key_paths=_hd_map(g("hd_key_paths")),
        taproot_internal_key=_hex(g("taproot_internal_key")),
        taproot_tree=[(d, v, bytes.fromhex(s)) for d, v, s in g("taproot_tree") or []],
        taproot_hd_key_paths=_tap_hd_map(g("taproot_hd_key_paths")),
        unknown=_bytes_map(g("unknown")),
        amount=g("amount"),
        script_pub_key=_hex(g("script_pub_key")),
        musig2_participant_pub_keys=_musig2_map(g("musig2_participant_pub_keys")),
        sp_v0_info=_hex(g("sp_v0_info")),
        sp_v0_label=g("sp_v0_label"),
        check_validity=True,
    )


# ---------------------------------------------------------------------------------------------
# Psbt
# ---------------------------------------------------------------------------------------------


@st.composite
def _global_xpubs(draw):
    entries = draw(st.lists(st.tuples(_secret(), _origin(), st.integers(0, 0xFFFF)), min_size=1, max_size=3, unique_by=(lambda e: e[0], lambda e: _origin_id(e[1]))))
    return [[_xpub(secret, origin["path"], seed), origin] for secret, origin, seed in entries]


@st.composite
def psbt_case(draw, version: int | None = None, max_inputs: int = 3, max_outputs: int = 3, canonical: bool = True, dirty_finalized: bool = True):
    """A valid Psbt of the given version (drawn from {0, 2} if None) as a JSON case.

    canonical=False lets a v0 psbt hold None where its unsigned tx holds a default (sequence,
    amount, fallback_lock_time): assert_valid accepts that, parse(serialize()) normalizes it.
    dirty_finalized=False never leaves signing fields beside final_script_sig/witness.
    """
    v = draw(st.sampled_from([0, 2])) if version is None else version
    c: dict = {
        "version": v,
        "tx_version": draw(st.one_of(st.sampled_from([2, 2, 1, 0, 3, 0xFFFFFFFF]), u32())),
        "fallback_lock_time": None,
        "tx_modifiable": None,
        "signed_message": None,
        "hd_key_paths": [],
        "sp_ecdh_shares": [],
        "sp_dleq_proofs": [],
        "unknown": [],
    }
    lock_time = st.one_of(st.sampled_from([0, 0, 1, LOCK_TIME_THRESHOLD - 1, LOCK_TIME_THRESHOLD, 0xFFFFFFFF]), u32())
    if v == 0:
        if canonical or _coin(draw, 2, 3):
            c["fallback_lock_time"] = draw(lock_time)
    else:
        if _coin(draw):
            c["fallback_lock_time"] = draw(lock_time)
        if _coin(draw):
            c["tx_modifiable"] = draw(st.one_of(st.just(0), st.sampled_from([1, 2, 3, 4, 7, 0xFF]), st.integers(0, 0xFF)))
        if _coin(draw):
            c["sp_ecdh_shares"] = draw(_map(_comp_key(), _comp_key()))
        if _coin(draw):
            c["sp_dleq_proofs"] = draw(_map(_comp_key(), _blob(64)))
    if _coin(draw):
        c["signed_message"] = draw(st.one_of(st.just(""), st.just(""), hexbytes(0, 12), _blob(32)))
    if _coin(draw):
        c["hd_key_paths"] = draw(_global_xpubs())
    if _coin(draw):
        c["unknown"] = draw(_unknown(KNOWN_GLOBAL_TYPES))

    lock_kind = draw(st.sampled_from(["height", "time"]))
    seen: set = set()
    c["inputs"] = [_draw_input(draw, v, True, seen, lock_kind, canonical, dirty_finalized) for _ in range(draw(st.integers(1, max_inputs)))]
    nout = draw(st.integers(1, max_outputs))
    c["outputs"] = [_draw_output(draw, v, True, a, canonical) for a in _amounts(draw, nout)]
    return c


def build_psbt(case: dict) -> Psbt:
    g = case.get
    return Psbt(
        case["tx_version"],
        [build_psbt_in(i) for i in case["inputs"]],
        [build_psbt_out(o) for o in case["outputs"]],
        case["version"],
        _hd_map(g("hd_key_paths")),
        _bytes_map(g("unknown")),
        g("fallback_lock_time"),
        g("tx_modifiable"),
        None if g("signed_message") is None else bytes.fromhex(g("signed_message")),
        _bytes_map(g("sp_ecdh_shares")),
        _bytes_map(g("sp_dleq_proofs")),
        check_validity=True,
    )


# ---------------------------------------------------------------------------------------------
# self test
# ---------------------------------------------------------------------------------------------


def _strip(case):
    """The case without its absent fields (for printing)."""
    if isinstance(case, dict) and ("inputs" in case or "previous_tx_id" in case or "script_pub_key" in case):
        out = {k: v for k, v in case.items() if is_present(v)}
        for k in ("inputs", "outputs"):
            if k in case:
                out[k] = [_strip(m) for m in case[k]]
        return out
    return case


def _map_diff_paths(m, n) -> list[str]:
    """Differing fields of two PsbtIn / PsbtOut; m is the original.

    A signing field that a finalized original loses is labelled apart: that is serialize()'s
    documented _DROPPED_ONCE_FINALIZED rule, and it must not hide another loss of the same field.
    """
    import dataclasses

    finalized = isinstance(m, PsbtIn) and bool(m.final_script_sig or m.final_script_witness)
    out = []
    for ff in dataclasses.fields(m):
        x, y = getattr(m, ff.name), getattr(n, ff.name)
        if x != y:
            dropped = finalized and ff.name in SIGNING_FIELDS and not y and y is not x
            out.append(".<signing field of a finalized input, dropped>" if dropped else f".{ff.name}")
    return out


def _diff_paths(a, b) -> list[str]:
    """Which dataclass fields differ between two Psbt (inputs/outputs without their index)."""
    import dataclasses

    out = []
    for f in dataclasses.fields(Psbt):
        x, y = getattr(a, f.name), getattr(b, f.name)
        if f.name in ("inputs", "outputs"):
            if len(x) != len(y):
                out.append(f"{f.name}.len")
            for m, n in zip(x, y):
                out.extend(f"{f.name}[]{path}" for path in _map_diff_paths(m, n))
        elif x != y:
            out.append(f.name)
    return sorted(set(out)) or ["(objects differ, no field does)"]


def _exc_signature(e: BaseException) -> str:
    import re

    msg = re.sub(r"[0-9a-fA-F]{8,}", "<hex>", str(e))
    msg = re.sub(r"\d+", "<n>", msg)
    return f"{type(e).__name__}: {msg[:100]}"


def round_trip_failures(case: dict) -> list[tuple[str, str]]:
    """(signature, detail) of every round trip the built psbt does not survive; [] if all hold."""
    import json

    p = build_psbt(case)
    fails: list[tuple[str, str]] = []

    def step(name, fun):
        try:
            return fun()
        except Exception as e:  # noqa: BLE001
            fails.append((f"{name} raises {_exc_signature(e)}", repr(e)[:300]))
            return None

    b = step("serialize", p.serialize)
    if b is not None:
        p2 = step("parse(serialize(p))", lambda: Psbt.parse(b))
        if p2 is None:
            p2 = object()
        else:
            if p2 != p:
                for path in _diff_paths(p, p2):
                    fails.append((f"parse(serialize(p)) != p at {path}", ""))
            b2 = step("parse(serialize(p)).serialize", p2.serialize)
            if b2 is not None and b2 != b:
                fails.append(("parse(serialize(p)).serialize() != serialize(p)", f"{len(b)} vs {len(b2)} bytes"))
        p4 = step("b64decode(b64encode(p))", lambda: Psbt.b64decode(p.b64encode()))
        if p4 is not None and p4 != p and p4 != p2:  # p4 == p2: already reported just above
            for path in _diff_paths(p, p4):
                fails.append((f"b64decode(b64encode(p)) != p at {path}", ""))
    d = step("to_dict", p.to_dict)
    if d is not None:
        j = step("json.dumps(to_dict)", lambda: json.loads(json.dumps(d)))
        if j is not None:
            p3 = step("from_dict(to_dict(p))", lambda: Psbt.from_dict(j))
            if p3 is not None and p3 != p:
                for path in _diff_paths(p, p3):
                    fails.append((f"from_dict(to_dict(p)) != p at {path}", ""))
    return fails


def _lone_self_test(strat, builder, cls, n_examples: int, hard_errors: list[str]) -> None:
    """Lone PsbtIn / PsbtOut: every case builds; binary and dict round trips of the map's own codec."""
    import json

    import hypothesis
    from hypothesis import HealthCheck, given, settings

    count = [0]
    fails: dict[str, list] = {}

    def note(sig: str, case: dict) -> None:
        fails.setdefault(sig, [0, case])[0] += 1

    @hypothesis.seed(1)
    @settings(max_examples=n_examples, database=None, deadline=None, suppress_health_check=list(HealthCheck))
    @given(strat)
    def run_lone(case):
        count[0] += 1
        try:
            json.dumps(case)
            obj = builder(case)
        except Exception as e:  # noqa: BLE001
            if len(hard_errors) < 8:
                hard_errors.append(f"{cls.__name__}: {type(e).__name__}: {e}\n    case={json.dumps(_strip(case))[:1500]}")
            return
        v = case["psbt_version"]
        try:
            b = obj.serialize(psbt_version=v)
            back = cls.parse(b, psbt_version=v)
            if back != obj:
                for path in set(_map_diff_paths(obj, back)):
                    note(f"v{v} parse(serialize(x)) != x at {path}", case)
            elif back.serialize(psbt_version=v) != b:
                note(f"v{v} reserialization differs", case)
        except Exception as e:  # noqa: BLE001
            note(f"v{v} binary round trip raises {_exc_signature(e)}", case)
        try:
            if cls.from_dict(json.loads(json.dumps(obj.to_dict()))) != obj:
                note(f"v{v} from_dict(to_dict(x)) != x", case)
        except Exception as e:  # noqa: BLE001
            note(f"v{v} dict round trip raises {_exc_signature(e)}", case)

    run_lone()
    print(f"\n================ lone {cls.__name__}: {count[0]} examples; round trip failure signatures: {len(fails)}")
    for sig, (cnt, case) in sorted(fails.items()):
        print(f"  [{cnt:3d}/{count[0]}] {sig}\n        first case={json.dumps(_strip(case))[:300]}...")


def _self_test(n_examples: int = 300, minimize: bool = True) -> int:
    import json
    import random
    import sys
    import time
    from collections import Counter, defaultdict

    import hypothesis
    from hypothesis import HealthCheck, given, settings

    hard_errors: list[str] = []
    findings: dict[int, dict[str, list]] = {}

    # what the rules make mandatory / forbidden: exempt from the 5% present / 5% absent demand
    exempt = {
        0: {
            "global": {"fallback_lock_time": "mandatory (unsigned tx)", "tx_modifiable": "forbidden in v0", "sp_ecdh_shares": "forbidden in v0", "sp_dleq_proofs": "forbidden in v0"},
            "in": {"previous_tx_id": "mandatory", "output_index": "mandatory", "sequence": "mandatory (unsigned tx)", "required_time_lock_time": "forbidden in v0", "required_height_lock_time": "forbidden in v0", "sp_ecdh_shares": "forbidden in v0", "sp_dleq_proofs": "forbidden in v0"},
            "out": {"amount": "mandatory (unsigned tx)", "sp_v0_info": "forbidden in v0", "sp_v0_label": "forbidden in v0"},
        },
        2: {"global": {}, "in": {"previous_tx_id": "mandatory", "output_index": "mandatory"}, "out": {"amount": "mandatory"}},
    }
    falsy_rows = [
        ("in", "sig_hash_type", 0), ("in", "sequence", 0), ("in", "output_index", 0),
        ("out", "amount", 0), ("out", "sp_v0_label", 0),
        ("global", "fallback_lock_time", 0), ("global", "tx_modifiable", 0), ("global", "signed_message", ""),
    ]  # fmt: skip

    for version in (0, 2):
        n_run = 0
        any_present: Counter = Counter()  # examples where some map of the scope has the field
        any_absent: Counter = Counter()  # examples where some map of the scope lacks it
        maps_present: Counter = Counter()
        maps_total: Counter = Counter()
        falsy: Counter = Counter()
        extra: Counter = Counter()
        buckets: dict[str, list] = defaultdict(list)
        bucket_count: Counter = Counter()
        sizes = []
        t0 = time.time()

        @hypothesis.seed(1)
        @settings(max_examples=n_examples, database=None, deadline=None, suppress_health_check=list(HealthCheck))
        @given(psbt_case(version))
        def run(case):
            nonlocal n_run
            n_run += 1
            try:
                text = json.dumps(case)
                assert json.loads(text) == case
                p = build_psbt(case)
                assert build_psbt(json.loads(text)) == p, "build_psbt is not deterministic"
                assert p.version == version
                sizes.append(len(p.serialize()))
            except Exception as e:  # noqa: BLE001  the generator itself is wrong
                if len(hard_errors) < 8:
                    hard_errors.append(f"v{version}: {type(e).__name__}: {e}\n    case={json.dumps(_strip(case))[:1500]}")
                return
            scopes = {"global": [case], "in": case["inputs"], "out": case["outputs"]}
            names = {"global": GLOBAL_FIELDS, "in": IN_FIELDS, "out": OUT_FIELDS}
            for scope, maps in scopes.items():
                for f in names[scope]:
                    flags = [is_present(m.get(f)) for m in maps]
                    any_present[scope, f] += any(flags)
                    any_absent[scope, f] += not all(flags)
                    maps_present[scope, f] += sum(flags)
                    maps_total[scope, f] += len(flags)
                for m in maps:
                    for k, _ in m.get("unknown") or []:
                        extra[scope, "unknown: proprietary 0xfc key" if k.startswith("fc") else "unknown: plain key"] += 1
            for scope, f, val in falsy_rows:
                falsy[scope, f] += any(m.get(f) == val and m.get(f) is not None for m in scopes[scope])
            extra["in", "finalized input, clean"] += any((is_present(i["final_script_sig"]) or is_present(i["final_script_witness"])) and not any(is_present(i[f]) for f in SIGNING_FIELDS) for i in case["inputs"])
            extra["in", "finalized input, signing fields kept"] += any((is_present(i["final_script_sig"]) or is_present(i["final_script_witness"])) and any(is_present(i[f]) for f in SIGNING_FIELDS) for i in case["inputs"])
            extra["in", "both utxo fields"] += any(is_present(i["non_witness_utxo"]) and is_present(i["witness_utxo"]) for i in case["inputs"])
            extra["global", f"{len(case['inputs'])} inputs"] += 1
            extra["global", f"{len(case['outputs'])} outputs"] += 1
            try:
                fails = round_trip_failures(case)
            except Exception as e:  # noqa: BLE001
                fails = [(f"round_trip_failures itself raises {_exc_signature(e)}", repr(e))]
            for sig, detail in fails:
                bucket_count[sig] += 1
                if len(buckets[sig]) < 3:
                    buckets[sig].append((detail, case))

        run()
        dt = time.time() - t0
        print(f"\n================ PSBT v{version}: {n_run} examples in {dt:.1f}s; serialized size min/median/max = {min(sizes)}/{sorted(sizes)[len(sizes) // 2]}/{max(sizes)} bytes")
        if n_run < n_examples:
            hard_errors.append(f"v{version}: only {n_run} of {n_examples} examples were generated (overruns?)")
        print(f"{'scope':6} {'field':34} {'examples present':>17} {'examples absent':>16} {'maps present':>14}")
        for scope, names_ in (("global", GLOBAL_FIELDS), ("in", IN_FIELDS), ("out", OUT_FIELDS)):
            for f in names_:
                pres, absn = any_present[scope, f], any_absent[scope, f]
                note = exempt[version][scope].get(f, "")
                ok = note or (pres >= 0.05 * n_run and absn >= 0.05 * n_run)
                print(f"{scope:6} {f:34} {pres:6d} ({100 * pres / n_run:5.1f}%) {absn:6d} ({100 * absn / n_run:5.1f}%) {maps_present[scope, f]:6d}/{maps_total[scope, f]:<6d} {note}{'' if ok else '  <-- COVERAGE TOO LOW'}")
                if not ok:
                    hard_errors.append(f"v{version}: coverage of {scope}.{f}: present {pres}, absent {absn} of {n_run}")
        print("falsy-but-present values (examples with at least one):")
        for scope, f, val in falsy_rows:
            if f in exempt[version][scope] and "forbidden" in exempt[version][scope][f]:
                continue
            print(f"  {scope:6} {f} == {val!r:4}: {falsy[scope, f]:4d} ({100 * falsy[scope, f] / n_run:.1f}%)")
            if falsy[scope, f] < 0.05 * n_run:
                hard_errors.append(f"v{version}: falsy value {scope}.{f}=={val!r} in only {falsy[scope, f]} examples")
        print("other counts:")
        for (scope, what), cnt in sorted(extra.items()):
            print(f"  {scope:6} {what}: {cnt}")
        findings[version] = {}
        print(f"round trip failures on valid objects: {len(bucket_count)} distinct signatures")
        for sig, cnt in bucket_count.most_common():
            findings[version][sig] = buckets[sig]
            print(f"  [{cnt:3d}/{n_run}] {sig}")
            for detail, case in buckets[sig][:1]:
                print(f"        {detail}  first case={json.dumps(_strip(case))[:300]}...")

    if minimize:
        print("\n================ minimal case per failure signature (hypothesis.find, Random(1))")
        for version, sigs in findings.items():
            for sig in sigs:
                try:
                    small = hypothesis.find(
                        psbt_case(version),
                        lambda c, sig=sig: any(s == sig for s, _ in round_trip_failures(c)),
                        settings=settings(max_examples=3000, database=None, deadline=None, suppress_health_check=list(HealthCheck)),
                        random=random.Random(1),
                    )
                    print(f"v{version} {sig}\n    minimal case (absent fields omitted): {json.dumps(_strip(small))}")
                except Exception as e:  # noqa: BLE001
                    print(f"v{version} {sig}\n    (no minimal case: {type(e).__name__}: {str(e)[:100]})")

    # the lone input / output maps: built, and sound with respect to their own codec
    for strat, builder, cls in ((input_case(), build_psbt_in, PsbtIn), (output_case(), build_psbt_out, PsbtOut)):
        _lone_self_test(strat, builder, cls, n_examples, hard_errors)

    print("\n================ generator verdict")
    if hard_errors:
        print("GENERATOR SELF-TEST FAILED:")
        for h in hard_errors:
            print("  " + h)
        return 1
    n_find = sum(len(s) for s in findings.values())
    print(f"generator sound and complete on {n_examples} examples per version; {n_find} round-trip failure signatures reported above (findings about btclib, not about the generator)")
    sys.stdout.flush()
    return 0


if __name__ == "__main__":
    import sys

    sys.exit(_self_test(minimize="--no-minimize" not in sys.argv))
