"""Recipes for script spends (JSON) and their deterministic materialisation into (tx dict, spent outputs, flags).

A recipe names a spend *form*, a locking script as a list of items, the unlocking items, keys by index, signature styles.
`materialize(recipe)` builds the transaction and signs with the model's own signer (vlib/models/fastec + sighash_ref), so the
signatures are independent of btclib. Nothing here imports btclib.
"""

from __future__ import annotations

import hashlib

from hypothesis import strategies as st

from vlib.models import core_script_ref as cs
from vlib.models import fastec
from vlib.models import sighash_ref as sh
from vlib.models.tx_ref import ser_string, sha256

NUMS = bytes.fromhex("50929b74c1a04954b78b4b6035e97a5e078a5a0f28ec96d547bfee9ace803ac0")
FORMS = ["bare", "p2sh", "p2wsh", "p2sh_p2wsh", "tapscript", "p2pk", "p2pkh", "p2wpkh", "p2sh_p2wpkh", "tr_key", "ms_bare", "ms_p2sh", "ms_p2wsh", "witness_unknown"]
CONSENSUS = ["P2SH", "DERSIG", "NULLDUMMY", "CHECKLOCKTIMEVERIFY", "CHECKSEQUENCEVERIFY", "WITNESS", "TAPROOT"]
STANDARD = [f for f in cs.ALL_FLAG_NAMES if f != "SIGPUSHONLY"]

# name -> (pops, pushes) for the stack-depth estimate of the grammar
OPS = {
    "OP_NOP": (0, 0), "OP_VERIFY": (1, 0), "OP_TOALTSTACK": (1, 0), "OP_FROMALTSTACK": (0, 1), "OP_2DROP": (2, 0), "OP_2DUP": (2, 4),
    "OP_3DUP": (3, 6), "OP_2OVER": (4, 6), "OP_2ROT": (6, 6), "OP_2SWAP": (4, 4), "OP_IFDUP": (1, 2), "OP_DEPTH": (0, 1), "OP_DROP": (1, 0),
    "OP_DUP": (1, 2), "OP_NIP": (2, 1), "OP_OVER": (2, 3), "OP_PICK": (2, 2), "OP_ROLL": (2, 1), "OP_ROT": (3, 3), "OP_SWAP": (2, 2),
    "OP_TUCK": (2, 3), "OP_SIZE": (1, 2), "OP_EQUAL": (2, 1), "OP_EQUALVERIFY": (2, 0), "OP_1ADD": (1, 1), "OP_1SUB": (1, 1),
    "OP_NEGATE": (1, 1), "OP_ABS": (1, 1), "OP_NOT": (1, 1), "OP_0NOTEQUAL": (1, 1), "OP_ADD": (2, 1), "OP_SUB": (2, 1),
    "OP_BOOLAND": (2, 1), "OP_BOOLOR": (2, 1), "OP_NUMEQUAL": (2, 1), "OP_NUMEQUALVERIFY": (2, 0), "OP_NUMNOTEQUAL": (2, 1),
    "OP_LESSTHAN": (2, 1), "OP_GREATERTHAN": (2, 1), "OP_LESSTHANOREQUAL": (2, 1), "OP_GREATERTHANOREQUAL": (2, 1), "OP_MIN": (2, 1),
    "OP_MAX": (2, 1), "OP_WITHIN": (3, 1), "OP_RIPEMD160": (1, 1), "OP_SHA1": (1, 1), "OP_SHA256": (1, 1), "OP_HASH160": (1, 1),
    "OP_HASH256": (1, 1), "OP_CODESEPARATOR": (0, 0), "OP_CHECKLOCKTIMEVERIFY": (1, 1), "OP_CHECKSEQUENCEVERIFY": (1, 1),
    "OP_NOP1": (0, 0), "OP_NOP4": (0, 0), "OP_NOP10": (0, 0),
}  # fmt: skip
RARE = ["OP_RESERVED", "OP_VER", "OP_VERIF", "OP_VERNOTIF", "OP_RESERVED1", "OP_RESERVED2", "OP_CAT", "OP_SUBSTR", "OP_LEFT", "OP_RIGHT", "OP_INVERT", "OP_AND",
        "OP_OR", "OP_XOR", "OP_2MUL", "OP_2DIV", "OP_MUL", "OP_DIV", "OP_MOD", "OP_LSHIFT", "OP_RSHIFT", "OP_RETURN", "OP_CHECKSIGADD", "OP_INVALIDOPCODE", "OP_1NEGATE",
        "OP_CHECKMULTISIG", "OP_CHECKMULTISIGVERIFY"]  # (the last two: disabled in tapscript, and met with an arbitrary stack elsewhere)
NUMBERS = [0, 1, 2, 16, 17, -1, 127, 128, 255, 256, 32767, 32768, 2**31 - 1, 2**31, -(2**31) + 1, -(2**31), 2**32, 500000000, 499999999, 0x400000, 0x40FFFF]


def key(k: int) -> int:
    return int.from_bytes(hashlib.sha256(b"c08-key-%d" % k).digest(), "big") % (fastec.N - 1) + 1


def pubkey(k: int, style: str) -> bytes:
    Q = fastec.mul(key(k), fastec.G)
    x, y = Q[0].to_bytes(32, "big"), Q[1].to_bytes(32, "big")
    if style == "compressed":
        return bytes([2 + (Q[1] & 1)]) + x
    if style == "uncompressed":
        return b"\x04" + x + y
    if style == "hybrid":
        return bytes([6 + (Q[1] & 1)]) + x + y
    if style == "hybrid-badparity":
        return bytes([7 - (Q[1] & 1)]) + x + y
    if style == "xonly":
        return x
    if style == "wrongprefix":
        return b"\x05" + x
    if style == "short":
        return (bytes([2 + (Q[1] & 1)]) + x)[:32]
    if style == "empty":
        return b""
    if style == "offcurve":
        return b"\x02" + (5).to_bytes(32, "big")  # x=5 is not on secp256k1
    if style == "xonly33":
        return x + b"\x00"
    return bytes([2 + (Q[1] & 1)]) + x


# ------------------------------------------------------------------ strategies (recipes are JSON)
def numbers():
    return st.one_of(st.sampled_from(NUMBERS), st.integers(-20, 20), st.integers(-(2**40), 2**40))


def data_item():
    return st.one_of(
        st.builds(lambda n: ["num", n], numbers()),
        st.builds(lambda b: ["push", b.hex()], st.binary(max_size=8)),
        st.builds(lambda n, c: ["push", bytes([c]).hex() * n], st.sampled_from([1, 2, 75, 76, 255, 256, 519, 520, 521]), st.integers(0, 255)),
        # explicit (possibly non-minimal / truncated) push encodings: opcode, length bytes, data
        st.builds(lambda d: ["raw", (b"\x4c" + bytes([len(d)]) + d).hex()], st.binary(max_size=5)),
        st.builds(lambda d: ["raw", (b"\x4d" + len(d).to_bytes(2, "little") + d).hex()], st.binary(max_size=5)),
        st.builds(lambda d: ["raw", (b"\x4e" + len(d).to_bytes(4, "little") + d).hex()], st.binary(max_size=3)),
        st.sampled_from([["raw", "0181"], ["raw", "0180"], ["raw", "0100"], ["raw", "020000"], ["raw", "0101"], ["raw", "0110"], ["raw", "05"], ["raw", "4c"], ["raw", "4d01"], ["raw", "4e000000"]]),
    )


@st.composite
def script_items(draw, tapscript=False, max_ops=14, depth0=0):
    """A locking script as items, tracking an estimate of the stack depth so that most opcodes have operands."""
    n = draw(st.integers(0, max_ops))
    items = []
    d = depth0
    open_ifs = 0
    for _ in range(n):
        r = draw(st.integers(0, 99))
        if r < 22:
            it = draw(data_item())
            items.append(it)
            d += 1
        elif r < 30:
            if d >= 1 or r % 2:
                items.append(["op", draw(st.sampled_from(["OP_IF", "OP_NOTIF"]))])
                d = max(0, d - 1)
                open_ifs += 1
        elif r < 36:
            if open_ifs or r % 5 == 0:
                items.append(["op", draw(st.sampled_from(["OP_ELSE", "OP_ENDIF", "OP_ENDIF"]))])
                if items[-1][1] == "OP_ENDIF":
                    open_ifs = max(0, open_ifs - 1)
        elif r < 40:
            items.append(["op", draw(st.sampled_from(RARE))])
        elif r < 43:
            items.append(["rawop", draw(st.integers(0xBB if tapscript else 0xBA, 0xFF))])
        elif r < 46 and tapscript:
            items.append(["rawop", draw(st.sampled_from([80, 98, 126, 129, 131, 134, 137, 138, 141, 142, 149, 153, 187, 254]))])
        else:
            fit = [o for o, (p, _) in OPS.items() if p <= d]
            pool = fit if (fit and r % 4) else list(OPS)
            o = draw(st.sampled_from(pool))
            items.append(["op", o])
            p, q = OPS[o]
            d = max(0, d - p) + q
    for _ in range(open_ifs):
        if draw(st.integers(0, 9)):
            items.append(["op", "OP_ENDIF"])
    fin = draw(st.sampled_from(["none", "true", "clean-true", "clean-true"]))
    if fin == "true":
        items.append(["num", 1])
    elif fin == "clean-true":
        items += [["op", "OP_2DROP"]] * (d // 2) + [["op", "OP_DROP"]] * (d % 2) + [["num", 1]]
    return items


def sig_style():
    return st.sampled_from(["valid", "valid", "valid", "high-s", "lax-pad-r", "lax-longlen", "lax-neg", "wrong-key", "wrong-msg", "empty", "truncated", "extra-byte", "zero-r", "r-overflow"])


def hashtype_legacy():
    # three classes, about evenly: the six defined types; bytes that are undefined only through bit 5 or 6 (base 1..3, with or without
    # ANYONECANPAY: what STRICTENC's IsDefinedHashtypeSignature refuses and the digest algorithms read as their base type); other undefined bytes
    return st.one_of(
        st.sampled_from([1, 1, 1, 2, 3, 0x81, 0x82, 0x83]),
        st.sampled_from([1, 1, 2, 3, 0x81, 0x83]),
        st.sampled_from([0x21, 0x22, 0x23, 0x41, 0x42, 0x43, 0x61, 0x62, 0x63, 0xA1, 0xA2, 0xA3, 0xC1, 0xC2, 0xC3, 0xE1, 0xE2, 0xE3]),
        st.sampled_from([0, 4, 5, 0x50, 0x80, 0x84, 0xFF, 0x20, 0x40, 0x60]),
    )


def hashtype_tap():
    return st.sampled_from(["default", "default", 1, 2, 3, 0x81, 0x82, 0x83, "explicit-0", 4, 0x80, 0xFF])


def tap_sig_style():
    return st.sampled_from(["valid", "valid", "valid", "wrong-key", "wrong-msg", "empty", "63", "66", "bitflip"])


def key_style(tap=False):
    if tap:
        return st.sampled_from(["xonly", "xonly", "xonly", "compressed", "empty", "xonly33", "short"])
    return st.sampled_from(["compressed", "compressed", "uncompressed", "hybrid", "hybrid-badparity", "wrongprefix", "short", "empty", "offcurve"])


@st.composite
def flags_strategy(draw):
    kind = draw(st.sampled_from(["consensus", "standard", "none", "consensus-1", "standard-1", "random", "consensus+1"]))
    if kind == "consensus":
        fl = set(CONSENSUS)
    elif kind == "standard":
        fl = set(STANDARD)
    elif kind == "none":
        fl = set()
    elif kind == "consensus-1":
        fl = set(CONSENSUS) - {draw(st.sampled_from(CONSENSUS))}
    elif kind == "standard-1":
        fl = set(STANDARD) - {draw(st.sampled_from(STANDARD))}
    elif kind == "consensus+1":
        fl = set(CONSENSUS) | {draw(st.sampled_from(cs.ALL_FLAG_NAMES))}
    else:
        fl = set(draw(st.lists(st.sampled_from(cs.ALL_FLAG_NAMES), max_size=12)))
    # the combinations Core asserts against are not generated
    if "CLEANSTACK" in fl:
        fl |= {"P2SH", "WITNESS"}
    if "TAPROOT" in fl:
        fl |= {"WITNESS"}
    if "WITNESS" in fl:
        fl |= {"P2SH"}
    return sorted(fl)


@st.composite
def recipe(draw, forms=None):
    form = draw(st.sampled_from(forms or FORMS))
    tap = form in ("tapscript", "tr_key")
    r = {"form": form, "flags": draw(flags_strategy())}
    r["version"] = draw(st.sampled_from([1, 2, 2, 3, 0, 0xFFFFFFFF]))
    r["lock_time"] = draw(st.sampled_from([0, 0, 1, 499999999, 500000000, 0xFFFFFFFF, 17]))
    r["sequence"] = draw(st.sampled_from([0xFFFFFFFF, 0xFFFFFFFE, 0, 1, 0x400000, 0x40FFFF, 0x80000000, 17, 0xFFFF]))
    r["n_in"] = draw(st.integers(1, 3))
    r["n_out"] = draw(st.integers(1, 3))
    r["idx"] = draw(st.integers(0, r["n_in"] - 1))
    r["amount"] = draw(st.sampled_from([0, 1, 100000, 21 * 10**14]))
    if form in ("bare", "p2sh", "p2wsh", "p2sh_p2wsh", "tapscript"):
        tmpl = draw(st.sampled_from(["grammar", "grammar", "grammar", "grammar", "grammar", "grammar", "if-truth", "if-truth", "family", "family", "spend-limits"] + (["budget"] * 4 if tap else [])))
        if tmpl == "budget":
            # BIP342 sigops budget: 50 + witness size, minus 50 per executed check with a non-empty signature (whatever the key type).
            # One witness signature is re-used with OP_DUP so that the budget does not grow with the number of checks.
            # (the budget is 50 + the witness size, about 36 per check: with one reused signature it runs out between 13 and 16 checks, depending on the key's size)
            n_checks = draw(st.sampled_from([1, 2, 5, 10, 12, 13, 14, 15, 16, 17, 20]))
            kstyle = draw(st.sampled_from(["xonly", "xonly", "xonly33", "compressed", "short"]))
            k = draw(st.integers(0, 3))
            r["unlock"] = [["sig", k, draw(st.sampled_from(["valid", "valid", "valid", "empty", "wrong-msg"])), draw(st.sampled_from(["default", "default", 1, 0x83]))]]
            r["script"] = [["repeatseq", n_checks, [["op", "OP_DUP"], ["key", k, kstyle], ["op", "OP_CHECKSIGVERIFY"]]], ["op", "OP_DROP"], ["num", 1]]
            r["codesep"] = 0
            r["template"] = "budget"
            if draw(st.booleans()):
                # multi_a shape: <k0> CHECKSIG <k1> CHECKSIGADD ... <m> NUMEQUAL with n up to 20 and mostly empty signatures
                # (an empty signature is free: only non-empty ones are charged against the budget)
                n_keys = draw(st.sampled_from([2, 3, 10, 11, 12, 15, 16, 20]))
                m_sig = draw(st.integers(0, 3))
                signing = sorted(draw(st.lists(st.integers(0, n_keys - 1), min_size=min(m_sig, n_keys), max_size=min(m_sig, n_keys), unique=True)))
                script = []
                for j in range(n_keys):
                    script += [["key", j, "xonly"], ["op", "OP_CHECKSIG" if j == 0 else "OP_CHECKSIGADD"]]
                script += [["num", draw(st.sampled_from([len(signing), len(signing), m_sig, 1]))], ["op", "OP_NUMEQUAL"]]
                r["script"] = script
                # witness order: the signature for the LAST key is pushed first
                r["unlock"] = [["sig", j, "valid" if j in signing else "empty", draw(st.sampled_from(["default", "default", 1]))] for j in reversed(range(n_keys))]
        if tmpl == "budget":
            pass
        elif tmpl == "spend-limits":
            # the limits of the script forms as a spend meets them: 201 counted ops and 10000 bytes in every form but tapscript (BIP342 lifts both),
            # 520-byte witness items, 1000 stack items at the start of a witness script
            which = draw(st.sampled_from(["ops", "ops", "script-size", "initial-stack", "item-size"]))
            if which == "ops":
                r["unlock"], r["script"] = [], [["repeat", draw(st.sampled_from([200, 201, 202, 300])), ["op", "OP_NOP"]], ["num", 1]]
            elif which == "script-size":
                total = draw(st.sampled_from([9999, 10000, 10001, 10500]))
                r["unlock"], r["script"] = [], [["repeat", (total - 1) // 2, ["raw", "0075"]], ["repeat", (total - 1) % 2, ["raw", "61"]], ["num", 1]]
            elif which == "initial-stack":
                n = draw(st.sampled_from([998, 999, 1000, 1001]))
                r["unlock"], r["script"] = [["push", ""]] * n, [["num", 1]]  # left on the stack: CLEANSTACK where it is asked, the size limit before that
            else:
                r["unlock"], r["script"] = [["push", "aa" * draw(st.sampled_from([519, 520, 521]))]], [["op", "OP_DROP"], ["num", 1]]
        elif tmpl == "if-truth":
            # (non-)minimal truth values into IF/NOTIF: MINIMALIF is policy in P2WSH, consensus in tapscript, nothing elsewhere
            r["unlock"] = [["push", draw(st.sampled_from(TRUTHS))]]
            r["script"] = [["op", draw(st.sampled_from(["OP_IF", "OP_NOTIF"]))], ["num", 1], ["op", "OP_ELSE"], ["num", 1], ["op", "OP_ENDIF"]]
        elif tmpl == "family":
            pc = draw(program_case())
            r["unlock"] = [["push", x] for x in pc["stack"]][:4]
            r["script"] = pc["script"] if pc["family"] != "limits" else [["num", 1]]
            r["version"], r["lock_time"], r["sequence"] = pc["version"], pc["lock_time"], pc["sequence"]
        else:
            r["unlock"] = draw(st.lists(data_item(), max_size=4))
            r["script"] = draw(script_items(tapscript=tap, depth0=len(r["unlock"])))
        # optionally weave signature checks into the script
        nsig = draw(st.sampled_from([0, 0, 1, 1, 2])) if tmpl != "budget" else 0
        for s in range(nsig):
            k = draw(st.integers(0, 3))
            op = draw(st.sampled_from(["OP_CHECKSIG", "OP_CHECKSIG", "OP_CHECKSIGVERIFY", "OP_CHECKSIGADD" if tap else "OP_CHECKSIG", "CHECKSIG-NOT"]))
            chunk = [["key", k, draw(key_style(tap))], ["op", "OP_CHECKSIG" if op == "CHECKSIG-NOT" else op]] + ([["op", "OP_NOT"]] if op == "CHECKSIG-NOT" else [])
            r["script"] = chunk + r["script"] if draw(st.booleans()) else r["script"] + chunk
            if op == "OP_CHECKSIGADD":
                r["unlock"].append(["num", draw(st.integers(0, 2))])
            r["unlock"].append(["sig", k, draw(tap_sig_style() if tap else sig_style()), draw(hashtype_tap() if tap else hashtype_legacy())])
        r["codesep"] = draw(st.integers(0, 2)) if tmpl != "budget" else 0
    elif form in ("p2pk", "p2pkh", "p2wpkh", "p2sh_p2wpkh"):
        r["key"] = draw(st.integers(0, 3))
        r["key_style"] = draw(key_style())
        r["sig"] = [draw(sig_style()), draw(hashtype_legacy())]
        r["extra_unlock"] = draw(st.lists(data_item(), max_size=1))
    elif form == "tr_key":
        r["key"] = draw(st.integers(0, 3))
        r["sig"] = [draw(tap_sig_style()), draw(hashtype_tap())]
        r["merkle_root"] = draw(st.sampled_from(["", "11" * 32]))
    elif form.startswith("ms_"):
        n = draw(st.sampled_from([1, 2, 3, 3, 15, 20, 21]))
        m = draw(st.integers(0, min(n, 4)))
        if n <= 3 and draw(st.integers(0, 23)) == 13:
            m = n + 1  # more signatures asked for than there are keys (SIG_COUNT)
        r["n"], r["m"] = n, m
        good = draw(st.integers(0, 2)) > 0  # two thirds of the multisigs have only well-formed keys, so that signature-side rules are reached
        r["key_styles"] = [draw(st.sampled_from(["compressed", "compressed", "uncompressed"])) if good else draw(key_style()) for _ in range(min(n, 4))]
        pattern = None
        if draw(st.integers(0, 4)) and m <= min(n, 4):
            # well-shaped: exactly m signatures for an increasing choice of keys, each slot valid / empty / one of the malformed styles
            ks = sorted(draw(st.lists(st.integers(0, min(n, 4) - 1), min_size=m, max_size=m, unique=True)))
            pattern = draw(st.sampled_from(["random", "random", "tail-valid", "head-valid", "all-valid", "all-empty"]))
            cut = draw(st.integers(1, max(1, m - 1)))

            def style(pos):
                if pattern == "tail-valid":  # the signatures evaluated first (top of the stack) verify, the rest are empty
                    return "valid" if pos >= m - cut else "empty"
                if pattern == "head-valid":
                    return "valid" if pos < cut else "empty"
                if pattern == "all-valid":
                    return "valid"
                if pattern == "all-empty":
                    return "empty"
                return draw(st.sampled_from(["valid", "valid", "valid", "empty", "empty", "wrong-msg", "high-s", "lax-pad-r"]))

            r["sigs"] = [[k, style(pos), draw(st.sampled_from([1, 1, 1, 0x81, 3, 0]))] for pos, k in enumerate(ks)]
            r["sorted_sigs"] = True
        else:
            r["sigs"] = [[draw(st.integers(0, max(0, min(n, 4) - 1))), draw(sig_style()), draw(hashtype_legacy())] for _ in range(draw(st.integers(0, m + 1)))]
            r["sorted_sigs"] = draw(st.booleans())
        if m > n:
            # as many (empty) signatures as are asked for, so that the count itself is what decides: an error in Core, where a library that only found no
            # signature matching would push false -- and the NOT variant turn that into true
            r["sigs"] = [[0, "empty", 1] for _ in range(m)]
            r["sorted_sigs"] = False
        r["dummy"] = draw(st.sampled_from(["", "", "00", "01", "51"]))
        r["verify_variant"] = draw(st.sampled_from([False, True, "not", "not"]))
        if pattern in ("tail-valid", "head-valid") and m >= 2 and draw(st.booleans()):
            # some signatures verify, the others are empty, the op fails as a whole: NULLFAIL's case, which shows in the verdict only where a false result is tolerated
            r["verify_variant"] = "not"
            r["dummy"] = ""
        r["m_push"] = draw(st.sampled_from(["op", "op", "nonminimal"]))
    else:  # witness_unknown
        r["wit_version"] = draw(st.integers(1, 16))
        r["program"] = draw(st.sampled_from([2, 20, 32, 33, 40])) * "ab"
        if r["wit_version"] == 1 and draw(st.integers(0, 3)) == 0:
            r["program"] = "4e73"  # pay-to-anchor
        r["p2sh_wrap"] = draw(st.booleans())
        r["witness"] = draw(st.lists(st.binary(max_size=4).map(bytes.hex), max_size=2))
    r["scriptsig_variant"] = draw(st.sampled_from(["exact", "exact", "exact", "extra-push", "pushdata1", "nonpush", "empty"]))
    r["stray_witness"] = draw(st.integers(0, 15)) == 9  # (one case in ten or so: Hypothesis draws 0 and the ends of a range far more often than the middle)
    r["drop_witness"] = draw(st.integers(0, 31)) == 19  # a witness program spent with no witness at all (a value off the ends and off zero: Hypothesis favours those)
    r["stray_scriptsig"] = draw(st.integers(0, 15)) == 9
    r["annex"] = draw(st.sampled_from([None, None, None, "50", "50aabb"]))
    r["leaf_version"] = draw(st.sampled_from([0xC0, 0xC0, 0xC0, 0xC2, 0x66]))
    r["control_depth"] = draw(st.integers(0, 2))
    r["control_tamper"] = draw(st.sampled_from(["none", "none", "none", "parity", "path-bit", "truncate", "extend"]))
    r["program_tamper"] = draw(st.sampled_from(["none", "none", "none", "none", "hash-bit", "length"]))
    return r


# ------------------------------------------------------------------ materialisation
def item_bytes(it, tap=False) -> bytes:
    kind = it[0]
    if kind == "op":
        return bytes([cs.OP[it[1]]])
    if kind == "rawop":
        return bytes([it[1]])
    if kind == "num":
        n = it[1]
        if n == 0:
            return b"\x00"
        if n == -1 or 1 <= n <= 16:
            return bytes([0x4F if n == -1 else 0x50 + n])
        return cs.push_data(cs.num_encode(n))
    if kind == "push":
        return cs.push_data(bytes.fromhex(it[1]))
    if kind == "raw":
        return bytes.fromhex(it[1])
    if kind == "key":
        return cs.push_data(pubkey(it[1], it[2]))
    raise ValueError(it)


def item_value(it) -> bytes | None:
    """the stack element an unlocking item leaves (for witness stacks); None for things that are not a single push"""
    kind = it[0]
    if kind == "num":
        return cs.num_encode(it[1])
    if kind == "push":
        return bytes.fromhex(it[1])
    if kind == "raw":
        ok, pc, op, data = cs.get_op(bytes.fromhex(it[1]), 0)
        if ok and pc == len(bytes.fromhex(it[1])) and op <= 0x4E:
            return data
        return None
    return None


def der(r: int, s: int, style: str) -> bytes:
    def enc(x, pad=False, neg=False):
        b = x.to_bytes((x.bit_length() + 7) // 8 or 1, "big")
        if b[0] & 0x80 and not neg:
            b = b"\x00" + b
        if pad:
            b = b"\x00" + b
        return b"\x02" + bytes([len(b)]) + b

    body = enc(r, pad=style == "lax-pad-r", neg=style == "lax-neg") + enc(s)
    if style == "lax-longlen":
        return b"\x30\x81" + bytes([len(body)]) + body
    return b"\x30" + bytes([len(body)]) + body


def ecdsa_sig(digest_fn, k: int, style: str, hashtype: int) -> bytes:
    if style == "empty":
        return b""
    kk = key(k + 1) if style == "wrong-key" else key(k)
    digest = digest_fn(hashtype)
    if style == "wrong-msg":
        digest = sha256(digest)
    r, s = fastec.ecdsa_sign(digest, kk, low_s=style != "high-s")
    if style == "high-s" and s <= fastec.N // 2:
        s = fastec.N - s
    if style == "zero-r":
        r = 0
    if style == "r-overflow":
        r = r + fastec.N if r + fastec.N < 2**256 else 2**256 - 1
    sig = der(r, s, style) + bytes([hashtype & 0xFF])
    if style == "truncated":
        sig = sig[:-2] + sig[-1:]
    if style == "extra-byte":
        sig = sig[:-1] + b"\x00" + sig[-1:]
    return sig


def schnorr_sig(digest_fn, k: int, style: str, ht) -> bytes:
    if style == "empty":
        return b""
    hashtype = 0 if ht in ("default", "explicit-0") else ht
    digest = digest_fn(hashtype)
    if digest is None:
        digest = b"\x00" * 32  # undefined hash type: the signature cannot be valid anyway
    if style == "wrong-msg":
        digest = sha256(digest)
    sig = fastec.schnorr_sign(digest, key(k + 1) if style == "wrong-key" else key(k))
    if style == "bitflip":
        sig = sig[:40] + bytes([sig[40] ^ 1]) + sig[41:]
    if ht != "default":
        sig += bytes([hashtype])
    if style == "63":
        sig = sig[:63]
    if style == "66":
        sig = sig + b"\x01\x01"
    return sig


def _h160(b):
    return hashlib.new("ripemd160", sha256(b)).digest()


def materialize(r: dict):
    """-> (tx dict, idx, spent list, flags list, info)"""
    form = r["form"]
    idx = r["idx"]
    n_in, n_out = r["n_in"], r["n_out"]
    tx = {"version": r["version"], "lock_time": r["lock_time"],
          "vin": [{"txid": hashlib.sha256(b"in%d" % j).hexdigest(), "vout": j, "script_sig": "", "sequence": r["sequence"] if j == idx else 0xFFFFFFFE, "witness": []} for j in range(n_in)],
          "vout": [{"value": 1000 * (j + 1), "spk": "51"} for j in range(n_out)]}
    spent = [{"value": 5000 + j, "spk": "51"} for j in range(n_in)]
    spent[idx]["value"] = r["amount"]
    annex = bytes.fromhex(r["annex"]) if r.get("annex") else None
    i = tx["vin"][idx]
    info = {"sigs": 0}

    def legacy_digest(script_code):
        return lambda ht: sh.legacy(script_code, tx, idx, ht)

    def v0_digest(script_code):
        return lambda ht: sh.segwit_v0(script_code, tx, idx, ht, r["amount"])

    def after_codesep(script, k):
        if k == 0:
            return script
        found = 0
        for op, start, stop in sh.script_ops(script):
            if op == 0xAB:
                found += 1
                if found == k:
                    return script[stop:]
        return script

    if form in ("bare", "p2sh", "p2wsh", "p2sh_p2wsh", "tapscript"):
        tap = form == "tapscript"
        script = program_bytes(r["script"])
        code = after_codesep(script, r.get("codesep", 0))
        if form in ("bare", "p2sh"):
            dg = legacy_digest(code)
        elif tap:
            leaf_ver = r["leaf_version"]
            leaf = cs.tagged("TapLeaf", bytes([leaf_ver & 0xFE]) + ser_string(script))
            # position of the k-th code separator (opcode index), 0xffffffff if none executed is assumed
            pos = 0xFFFFFFFF
            if r.get("codesep", 0):
                found = 0
                for n_, (op, start, stop) in enumerate(sh.script_ops(script)):
                    if op == 0xAB:
                        found += 1
                        if found == r["codesep"]:
                            pos = n_
            dg = None
        else:
            dg = v0_digest(code)
        unlock_items = []
        if tap:
            path = [hashlib.sha256(b"path%d" % d).digest() for d in range(r["control_depth"])]
            k_ = leaf
            for e in path:
                k_ = cs.tagged("TapBranch", k_ + e) if k_ < e else cs.tagged("TapBranch", e + k_)
            q, par = fastec.tap_tweak_pubkey(NUMS, k_)
            spk = b"\x51\x20" + q
            spent[idx]["spk"] = spk.hex()

            def tdg(ht):
                return sh.taproot(tx, idx, spent, ht, annex=annex, scriptpath=True, leaf_hash=leaf, codeseparator_pos=pos)

            for it in r["unlock"]:
                if it[0] == "sig":
                    unlock_items.append(schnorr_sig(tdg, it[1], it[2], it[3]))
                    info["sigs"] += 1
                else:
                    v = item_value(it)
                    unlock_items.append(v if v is not None else b"\x01")
            control = bytes([(leaf_ver & 0xFE) | par]) + NUMS + b"".join(path)
            ct = r["control_tamper"]
            if ct == "parity":
                control = bytes([control[0] ^ 1]) + control[1:]
            elif ct == "path-bit" and path:
                control = control[:-1] + bytes([control[-1] ^ 1])
            elif ct == "truncate":
                control = control[:-1]
            elif ct == "extend":
                control = control + b"\x00" * 32
            wit = unlock_items + [script, control] + ([annex] if annex is not None else [])
            i["witness"] = [w.hex() for w in wit]
        else:
            for it in r["unlock"]:
                if it[0] == "sig":
                    unlock_items.append(("sig", ecdsa_sig(dg, it[1], it[2], it[3])))
                    info["sigs"] += 1
                else:
                    unlock_items.append(("item", it))
            if form == "bare":
                spent[idx]["spk"] = script.hex()
                i["script_sig"] = b"".join(cs.push_data(x[1]) if x[0] == "sig" else item_bytes(x[1]) for x in unlock_items).hex()
            elif form == "p2sh":
                spent[idx]["spk"] = (b"\xa9\x14" + _h160(script) + b"\x87").hex()
                pre = b"".join(cs.push_data(x[1]) if x[0] == "sig" else item_bytes(x[1]) for x in unlock_items)
                i["script_sig"] = (pre + _redeem_push(script, r["scriptsig_variant"] if r["scriptsig_variant"] in ("pushdata1", "nonpush") else "exact")).hex()
            else:
                prog = b"\x00\x20" + sha256(script)
                if r["program_tamper"] == "hash-bit":
                    prog = prog[:-1] + bytes([prog[-1] ^ 1])
                elif r["program_tamper"] == "length":
                    prog = b"\x00\x1f" + sha256(script)[:31]
                wit = [x[1] if x[0] == "sig" else (item_value(x[1]) if item_value(x[1]) is not None else b"\x01") for x in unlock_items] + [script]
                i["witness"] = [w.hex() for w in wit]
                if form == "p2wsh":
                    spent[idx]["spk"] = prog.hex()
                else:
                    spent[idx]["spk"] = (b"\xa9\x14" + _h160(prog) + b"\x87").hex()
                    i["script_sig"] = _p2sh_scriptsig(prog, r["scriptsig_variant"]).hex()
    elif form in ("p2pk", "p2pkh", "p2wpkh", "p2sh_p2wpkh"):
        pk = pubkey(r["key"], r["key_style"])
        style, ht = r["sig"]
        extra = b"".join(item_bytes(x) for x in r.get("extra_unlock", []))
        if form == "p2pk":
            spk = cs.push_data(pk) + b"\xac"
            sig = ecdsa_sig(legacy_digest(spk), r["key"], style, ht)
            i["script_sig"] = (extra + cs.push_data(sig)).hex()
            spent[idx]["spk"] = spk.hex()
        elif form == "p2pkh":
            spk = b"\x76\xa9\x14" + _h160(pk) + b"\x88\xac"
            sig = ecdsa_sig(legacy_digest(spk), r["key"], style, ht)
            i["script_sig"] = (extra + cs.push_data(sig) + cs.push_data(pk)).hex()
            spent[idx]["spk"] = spk.hex()
        else:
            code = b"\x76\xa9\x14" + _h160(pk) + b"\x88\xac"
            sig = ecdsa_sig(v0_digest(code), r["key"], style, ht)
            prog = b"\x00\x14" + _h160(pk)
            if r["program_tamper"] == "hash-bit":
                prog = prog[:-1] + bytes([prog[-1] ^ 1])
            elif r["program_tamper"] == "length":
                prog = b"\x00\x15" + _h160(pk) + b"\x00"
            wit = [sig, pk] + [item_value(x) or b"" for x in r.get("extra_unlock", [])]
            i["witness"] = [w.hex() for w in wit]
            if form == "p2wpkh":
                spent[idx]["spk"] = prog.hex()
            else:
                spent[idx]["spk"] = (b"\xa9\x14" + _h160(prog) + b"\x87").hex()
                i["script_sig"] = _p2sh_scriptsig(prog, r["scriptsig_variant"]).hex()
        info["sigs"] = 1
    elif form == "tr_key":
        x = pubkey(r["key"], "xonly")
        root = bytes.fromhex(r["merkle_root"])
        q, par = fastec.tap_tweak_pubkey(x, root)
        spent[idx]["spk"] = (b"\x51\x20" + q).hex()
        # tweaked secret key
        d0 = key(r["key"])
        Pt = fastec.mul(d0, fastec.G)
        d = d0 if Pt[1] % 2 == 0 else fastec.N - d0
        t = int.from_bytes(fastec.tagged_hash("TapTweak", x + root), "big") % fastec.N
        dq = (d + t) % fastec.N

        def tdg(ht):
            return sh.taproot(tx, idx, spent, ht, annex=annex)

        style, ht = r["sig"]
        hashtype = 0 if ht in ("default", "explicit-0") else ht
        if style == "empty":
            sig = b""
        else:
            digest = tdg(hashtype) or b"\x00" * 32
            if style == "wrong-msg":
                digest = sha256(digest)
            sig = fastec.schnorr_sign(digest, key(r["key"] + 1) if style == "wrong-key" else dq)
            if style == "bitflip":
                sig = sig[:40] + bytes([sig[40] ^ 1]) + sig[41:]
            if ht != "default":
                sig += bytes([hashtype])
            if style == "63":
                sig = sig[:63]
            if style == "66":
                sig += b"\x01\x01"
        i["witness"] = [sig.hex()] + ([annex.hex()] if annex is not None else [])
        info["sigs"] = 1
    elif form.startswith("ms_"):
        n, m = r["n"], r["m"]
        keys = [pubkey(j % 4, r["key_styles"][j % len(r["key_styles"])]) for j in range(n)]

        def numpush(v, nonmin=False):
            if nonmin:
                return cs.push_data(bytes([v]))
            return item_bytes(["num", v])

        script = numpush(m, r["m_push"] == "nonminimal") + b"".join(cs.push_data(k_) for k_ in keys) + numpush(n) + (b"\xae\x91" if r["verify_variant"] == "not" else b"\xaf\x51" if r["verify_variant"] else b"\xae")
        dg = v0_digest(script) if form == "ms_p2wsh" else legacy_digest(script)
        sl = list(r["sigs"])
        if r["sorted_sigs"]:
            sl.sort(key=lambda s: s[0])
        sigs = [ecdsa_sig(dg, s[0], s[1], s[2]) for s in sl]
        info["sigs"] = len(sigs)
        dummy = bytes.fromhex(r["dummy"])
        if form == "ms_bare":
            spent[idx]["spk"] = script.hex()
            i["script_sig"] = (cs.push_data(dummy) if dummy not in (b"", b"\x51") else (b"\x00" if dummy == b"" else b"\x51")).hex() + b"".join(cs.push_data(s) for s in sigs).hex()
        elif form == "ms_p2sh":
            spent[idx]["spk"] = (b"\xa9\x14" + _h160(script) + b"\x87").hex()
            i["script_sig"] = ((b"\x00" if dummy == b"" else cs.push_data(dummy)) + b"".join(cs.push_data(s) for s in sigs) + cs.push_data(script)).hex()
        else:
            prog = b"\x00\x20" + sha256(script)
            spent[idx]["spk"] = prog.hex()
            i["witness"] = [w.hex() for w in [dummy] + sigs + [script]]
    else:
        prog = bytes([0x50 + r["wit_version"], len(r["program"]) // 2]) + bytes.fromhex(r["program"])
        i["witness"] = r["witness"]
        if r["p2sh_wrap"]:
            spent[idx]["spk"] = (b"\xa9\x14" + _h160(prog) + b"\x87").hex()
            i["script_sig"] = _p2sh_scriptsig(prog, r["scriptsig_variant"]).hex()
        else:
            spent[idx]["spk"] = prog.hex()
    if r.get("drop_witness") and i["witness"]:
        i["witness"] = []
    if r.get("stray_witness") and not i["witness"] and not r.get("drop_witness"):
        i["witness"] = ["01"]
    if r.get("stray_scriptsig") and not i["script_sig"]:
        i["script_sig"] = "51"
    return tx, idx, spent, r["flags"], info


def _redeem_push(script: bytes, variant: str) -> bytes:
    if variant == "pushdata1" and len(script) < 0x4C:
        return b"\x4c" + bytes([len(script)]) + script
    if variant == "nonpush":
        return b"\x61" + cs.push_data(script)
    return cs.push_data(script)


def _p2sh_scriptsig(prog: bytes, variant: str) -> bytes:
    if variant == "extra-push":
        return b"\x51" + cs.push_data(prog)
    if variant == "pushdata1":
        return b"\x4c" + bytes([len(prog)]) + prog
    if variant == "nonpush":
        return b"\x61" + cs.push_data(prog)
    if variant == "empty":
        return b""
    return cs.push_data(prog)


# ------------------------------------------------------------------ single-script programs (for the final-stack oracle)
ARITH1 = ["OP_1ADD", "OP_1SUB", "OP_NEGATE", "OP_ABS", "OP_NOT", "OP_0NOTEQUAL", "OP_SIZE", "OP_IFDUP", "OP_RIPEMD160", "OP_SHA1", "OP_SHA256", "OP_HASH160", "OP_HASH256", "OP_VERIFY", "OP_DUP", "OP_DROP", "OP_TOALTSTACK"]
ARITH2 = ["OP_ADD", "OP_SUB", "OP_BOOLAND", "OP_BOOLOR", "OP_NUMEQUAL", "OP_NUMEQUALVERIFY", "OP_NUMNOTEQUAL", "OP_LESSTHAN", "OP_GREATERTHAN", "OP_LESSTHANOREQUAL",
          "OP_GREATERTHANOREQUAL", "OP_MIN", "OP_MAX", "OP_EQUAL", "OP_EQUALVERIFY", "OP_SWAP", "OP_NIP", "OP_OVER", "OP_TUCK", "OP_2DUP", "OP_2DROP", "OP_PICK", "OP_ROLL"]
ARITH3 = ["OP_WITHIN", "OP_ROT", "OP_3DUP"]
STACKN = ["OP_2OVER", "OP_2ROT", "OP_2SWAP", "OP_DEPTH", "OP_PICK", "OP_ROLL", "OP_FROMALTSTACK"]
SMALL = [-2, -1, 0, 1, 2, 3, 2**31 - 1, -(2**31) + 1, 2**31, 127, 128, -128]
TRUTHS = ["", "00", "80", "0000", "0080", "01", "02", "0100", "0101", "81", "ff"]


@st.composite
def program_case(draw):
    fam = draw(st.sampled_from(["arith1", "arith2", "arith3", "stackn", "locktime", "if", "limits", "grammar", "grammar"]))
    case = {"family": fam, "segwit": draw(st.booleans()), "flags": draw(flags_strategy()), "version": draw(st.sampled_from([1, 2, 2, 0, 3, 0xFFFFFFFF])),
            "lock_time": draw(st.sampled_from([0, 1, 17, 499999999, 500000000, 500000001, 0xFFFFFFFF])), "sequence": draw(st.sampled_from([0xFFFFFFFF, 0xFFFFFFFE, 0, 1, 17, 0x400000, 0x400011, 0x80000000, 0xFFFF]))}
    num = st.one_of(st.sampled_from(SMALL), st.integers(-5, 5))
    val = st.one_of(num.map(lambda n: ["num", n]), st.sampled_from(TRUTHS).map(lambda h: ["push", h]), st.binary(max_size=6).map(lambda b: ["push", b.hex()]))
    if fam == "arith1":
        case["stack"], case["script"] = [], [draw(val), ["op", draw(st.sampled_from(ARITH1))]]
    elif fam == "arith2":
        case["stack"], case["script"] = [], [draw(val), draw(val), ["op", draw(st.sampled_from(ARITH2))]]
    elif fam == "arith3":
        case["stack"], case["script"] = [], [draw(val), draw(val), draw(val), ["op", draw(st.sampled_from(ARITH3))]]
    elif fam == "stackn":
        k = draw(st.integers(0, 7))
        case["stack"] = [bytes([0x10 + j]).hex() for j in range(k)]
        case["script"] = ([["num", draw(st.integers(-1, k + 1))]] if draw(st.booleans()) else []) + [["op", draw(st.sampled_from(STACKN))]]
    elif fam == "locktime":
        n = draw(st.one_of(st.sampled_from([0, 1, 17, 499999999, 500000000, 500000001, 0x400000, 0x400011, 0x80000000, 0xFFFFFFFF, -1, 2**32, 0xFFFF, 2**39]), st.integers(0, 20)))
        case["stack"], case["script"] = [], [["num", n], ["op", draw(st.sampled_from(["OP_CHECKLOCKTIMEVERIFY", "OP_CHECKSEQUENCEVERIFY"]))]]
    elif fam == "if":
        body = [["op", draw(st.sampled_from(["OP_IF", "OP_NOTIF"]))], ["num", 1], ["op", "OP_ELSE"], ["num", 2], ["op", "OP_ENDIF"]]
        case["stack"] = [draw(st.sampled_from(TRUTHS))]
        case["script"] = body
    elif fam == "limits":
        kind = draw(st.sampled_from(["ops", "ops-multisig", "push-size", "stack-size", "script-size", "multisig-keys", "altstack-size"]))
        case["limit_kind"] = kind
        case["stack"] = []
        if kind == "ops":
            case["script"] = [["repeat", draw(st.sampled_from([199, 200, 201, 202])), ["op", "OP_NOP"]], ["num", 1]]
        elif kind == "ops-multisig":
            nk = draw(st.sampled_from([1, 3, 20]))
            # 0 0 <nk keys> nk CHECKMULTISIG counts nk+1 ops
            case["script"] = [["repeat", draw(st.sampled_from([199, 200, 201])) - nk, ["op", "OP_NOP"]], ["num", 0], ["num", 0], ["repeat", nk, ["push", "02" + "11" * 32]], ["num", nk], ["op", "OP_CHECKMULTISIG"]]
        elif kind == "push-size":
            case["script"] = [["push", "aa" * draw(st.sampled_from([519, 520, 521]))], ["op", draw(st.sampled_from(["OP_DROP", "OP_SIZE"]))], ["num", 1]]
            if draw(st.booleans()):  # the same inside a branch nothing takes
                case["script"] = [["num", 0], ["op", "OP_IF"]] + case["script"][:1] + [["op", "OP_ENDIF"], ["num", 1]]
        elif kind == "stack-size":
            case["script"] = [["repeat", draw(st.sampled_from([999, 1000, 1001])), ["num", 1]]]
        elif kind == "altstack-size":
            n = draw(st.sampled_from([999, 1000, 1001]))
            # 200 items moved to the altstack (200 counted ops, below the 201 limit), then pushes until stack + altstack is n: the limit is on the sum
            case["script"] = [["repeat", 200, ["num", 1]], ["repeat", 200, ["op", "OP_TOALTSTACK"]], ["repeat", n - 200, ["num", 1]]]
        elif kind == "script-size":
            total = draw(st.sampled_from([9999, 10000, 10001]))
            # pushes of 520 bytes (523 bytes each) dropped again, padded with NOPs... no: NOPs count as ops; pad with 1-byte pushes dropped in pairs
            chunks = (total - 1) // 524
            rest = total - 1 - chunks * 524
            case["script"] = [["repeat", chunks, ["pushdrop", 520]], ["repeat", rest // 2, ["raw", "0075"]], ["repeat", rest % 2, ["raw", "61"]], ["num", 1]]
        else:
            nk = draw(st.sampled_from([19, 20, 21]))
            case["script"] = [["num", 0], ["num", 0], ["repeat", nk, ["push", "02" + "11" * 32]], ["num", nk], ["op", "OP_CHECKMULTISIG"]]
    else:
        k = draw(st.integers(0, 3))
        case["stack"] = [draw(st.sampled_from(TRUTHS + ["0102", "7f", "ffffff7f"])) for _ in range(k)]
        case["script"] = draw(script_items(depth0=k))
    return case


def program_bytes(items) -> bytes:
    out = b""
    for it in items:
        if it[0] == "repeat":
            out += program_bytes([it[2]]) * it[1]
        elif it[0] == "repeatseq":
            out += program_bytes(it[2]) * it[1]
        elif it[0] == "pushdrop":
            out += cs.push_data(b"\xaa" * it[1]) + b"\x75"
        else:
            out += item_bytes(it)
    return out
