"""Valid encodings to mutate (C19): one registry of binary seed kinds, one of text seed kinds.

BIN[kind] = (strategy_factory, to_bytes):  strategy_factory() draws a JSON case, to_bytes(case) the valid encoding.
TXT[kind] = (strategy_factory, to_text).
Seeds come from the other checks' sound generators (vlib/gens/common.py, p2p.py, psbts.py) and from a corpus of
encodings copied from the public vectors vendored in the library's tests (vectors/c19_corpus.json). Using the library's own
serialize() to obtain a seed is fine: the seed is not the oracle.
"""

from __future__ import annotations

import base64
import hashlib
import json
import os

from hypothesis import strategies as st

from vlib.gens import common as g
from vlib.gens import p2p as gp2p
from vlib.gens import psbts as gpsbt
from vlib.models import base58_ref, psbt_ref, tx_ref

VERIF = os.path.dirname(os.path.dirname(os.path.dirname(os.path.abspath(__file__))))
with open(os.path.join(VERIF, "vectors", "c19_corpus.json"), encoding="utf-8") as _f:
    CORPUS = json.load(_f)

N = 0xFFFFFFFFFFFFFFFFFFFFFFFFFFFFFFFEBAAEDCE6AF48A03BBFD25E8CD0364141


def _idx(name: str):
    return st.integers(0, len(CORPUS[name]) - 1)


def expand(seed: int, n: int) -> bytes:
    out = b""
    k = 0
    while len(out) < n:
        out += hashlib.sha256(f"{seed}:{k}".encode()).digest()
        k += 1
    return out[:n]


# ------------------------------------------------------------------------------------------- binary kinds
def _tx_strategy():
    return st.one_of(
        st.fixed_dictionaries({"gen": g.tx_case(min_in=0, max_in=3, max_out=3)}),
        st.fixed_dictionaries({"gen": g.valid_tx_case(max_in=3, max_out=3)}),
        st.fixed_dictionaries({"corpus": _idx("tx_hex")}),
    )


def _tx_bytes(c) -> bytes:
    if "corpus" in c:
        return bytes.fromhex(CORPUS["tx_hex"][c["corpus"]])
    return tx_ref.serialize(c["gen"], True)


def _txin_case():
    return g.tx_case(min_in=1, max_in=1, max_out=0).map(lambda t: t["vin"][0])


SCRIPTS = [
    "",
    "76a914" + "11" * 20 + "88ac",
    "a914" + "22" * 20 + "87",
    "0014" + "33" * 20,
    "0020" + "44" * 32,
    "5120" + "55" * 32,
    "21" + "02" + "66" * 32 + "ac",
    "41" + "04" + "77" * 64 + "ac",
    "5221" + "02" + "11" * 32 + "21" + "03" + "22" * 32 + "52ae",
    "6a0b68656c6c6f20776f726c64",
    "6a4c50" + "ab" * 80,
    "4d0001" + "cd" * 256,
    "4e00010000" + "ef" * 256,
    "0101" + "0181" + "51" + "60" + "4f",
    "63" + "51" + "67" + "00" + "68",
    "20" + "aa" * 32 + "ad" + "20" + "bb" * 32 + "ac",
    "20" + "aa" * 32 + "ac" + "20" + "bb" * 32 + "ba" + "52" + "9c",
    "03" + "a08601" + "b1" + "75" + "51",
    "02" + "9000" + "b2" + "75" + "51",
    "a8" + "20" + "99" * 32 + "87",
    "82" + "0120" + "88" + "a9" + "14" + "77" * 20 + "87",
    "6a24aa21a9ed" + "ab" * 32,
    "00" + "50" + "62" + "89" + "8a" + "fe" + "ff",
    "51" * 40,
    "4c00",
    "0100" * 20,
]


def _script_strategy():
    return st.one_of(st.fixed_dictionaries({"fixed": st.integers(0, len(SCRIPTS) - 1)}), st.fixed_dictionaries({"code": g.script_code()}))


def _script_bytes(c) -> bytes:
    return bytes.fromhex(SCRIPTS[c["fixed"]] if "fixed" in c else c["code"])


def _psbt_strategy():
    return st.one_of(st.fixed_dictionaries({"corpus": _idx("psbt_b64")}), st.fixed_dictionaries({"corpus": _idx("psbt_b64")}), st.fixed_dictionaries({"gen": gpsbt.psbt_case()}))


def _psbt_bytes(c) -> bytes:
    if "corpus" in c:
        return base64.b64decode(CORPUS["psbt_b64"][c["corpus"]])
    return gpsbt.build_psbt(c["gen"]).serialize()


def _psbt_map_strategy():
    return st.fixed_dictionaries({"psbt": _psbt_strategy(), "map": st.integers(0, 50)})


def psbt_maps(c) -> tuple[list, int, int]:
    """(maps, number of inputs, version) of a psbt seed, by the independent splitter and the global map alone"""
    raw = _psbt_bytes(c)
    maps = psbt_ref.split(raw)
    glob = dict(maps[0])
    version = int.from_bytes(glob.get(b"\xfb", b"\x00"), "little")
    if b"\x00" in glob:
        n_in = len(tx_ref.parse(glob[b"\x00"], allow_witness=False)["vin"])
    else:
        n_in = glob.get(b"\x04", b"\x00")[0]
    return maps, n_in, version


def _psbt_in_bytes(c) -> bytes:
    maps, n_in, _ = psbt_maps(c["psbt"])
    if n_in == 0:
        return b"\x00"
    return psbt_ref.join([maps[1 + c["map"] % n_in]])[5:]


def _psbt_out_bytes(c) -> bytes:
    maps, n_in, _ = psbt_maps(c["psbt"])
    outs = maps[1 + n_in :]
    if not outs:
        return b"\x00"
    return psbt_ref.join([outs[c["map"] % len(outs)]])[5:]


def _psbt_anymap_bytes(c) -> bytes:
    maps, _, _ = psbt_maps(c["psbt"])
    return psbt_ref.join([maps[c["map"] % len(maps)]])[5:]


def psbt_version_of(c) -> int:
    return psbt_maps(c["psbt"])[2]


def _p2p(name):
    strat, build = gp2p.PAYLOADS[name]
    return (lambda: strat(), lambda c: build(c).serialize())


def _header_bytes(c) -> bytes:
    return gp2p.build_header(c).serialize()


def _small_block_strategy():
    return st.one_of(
        st.fixed_dictionaries({"real": st.integers(0, len(CORPUS["block_hex"]) - 1)}),
        st.fixed_dictionaries({"header": gp2p.header_case(), "txs": st.lists(g.valid_tx_case(max_in=2, max_out=2), min_size=0, max_size=3), "height": st.integers(0, 2**24)}),
    )


def _small_block_bytes(c) -> bytes:
    if "real" in c:
        return bytes.fromhex(CORPUS["block_hex"][c["real"]])
    h = c["height"]
    hb = h.to_bytes((h.bit_length() + 8) // 8 or 1, "little")
    cb = {"version": 2, "lock_time": 0, "vin": [{"txid": "00" * 32, "vout": 0xFFFFFFFF, "script_sig": (bytes([len(hb)]) + hb + b"\x00\x00").hex(), "sequence": 0xFFFFFFFF, "witness": []}], "vout": [{"value": 50 * 10**8, "spk": "51"}]}
    txs = [cb] + c["txs"]
    hdr = bytearray(_header_bytes(c["header"]))
    # a right merkle root (the proof of work cannot be made right: check_validity=True refuses these after reading them)
    hs = [tx_ref.txid(t)[::-1] for t in txs]
    while len(hs) > 1:
        if len(hs) % 2:
            hs.append(hs[-1])
        hs = [tx_ref.hash256(hs[i] + hs[i + 1]) for i in range(0, len(hs), 2)]
    hdr[36:68] = hs[0]
    return bytes(hdr) + tx_ref.compact_size(len(txs)) + b"".join(tx_ref.serialize(t, True) for t in txs)


def _xkey_strategy():
    return st.one_of(
        st.fixed_dictionaries({"corpus": _idx("xkeys")}),
        st.fixed_dictionaries({"version": st.sampled_from(["0488b21e", "0488ade4", "043587cf", "04358394", "049d7cb2", "04b24746", "04b2430c", "045f1cf6", "045f18bc"]), "depth": st.sampled_from([0, 1, 5, 255]), "fp": g.hexbytes(4, 4),
                               "index": g.u32(), "secret": st.integers(1, N - 1), "seed": st.integers(0, 2**32)}),
    )


def _xkey_bytes(c) -> bytes:
    if "corpus" in c:
        raw = base58_ref.check_decode(CORPUS["xkeys"][c["corpus"]])
        assert raw is not None and len(raw) == 78
        return raw
    private = c["version"] in ("0488ade4", "04358394", "04b2430c", "045f18bc")
    key = b"\x00" + c["secret"].to_bytes(32, "big") if private else pub_key_bytes(c["secret"], 0)
    depth = c["depth"]
    fp = bytes.fromhex(c["fp"]) if depth else b"\x00" * 4
    index = c["index"] if depth else 0
    return bytes.fromhex(c["version"]) + bytes([depth]) + fp + index.to_bytes(4, "big") + expand(c["seed"], 32) + key


def _pub(secret: int):
    from vlib.models import fastec

    return fastec.mul(secret, fastec.G)


def pub_key_bytes(secret: int, style: int = 0) -> bytes:
    """SEC encodings of secret*G: 0 compressed, 1 uncompressed, 2 x-only, 3 hybrid"""
    x, y = _pub(secret)
    if style == 0:
        return bytes([2 + (y & 1)]) + x.to_bytes(32, "big")
    if style == 1:
        return b"\x04" + x.to_bytes(32, "big") + y.to_bytes(32, "big")
    if style == 2:
        return x.to_bytes(32, "big")
    return bytes([6 + (y & 1)]) + x.to_bytes(32, "big") + y.to_bytes(32, "big")


def _der_int(i: int) -> bytes:
    b = i.to_bytes((i.bit_length() + 8) // 8 or 1, "big")
    return b"\x02" + bytes([len(b)]) + b


def der_sig(r: int, s: int) -> bytes:
    body = _der_int(r) + _der_int(s)
    return b"\x30" + bytes([len(body)]) + body


_SCALARS = st.one_of(st.sampled_from([1, 2, 0x7F, 0x80, 0xFF, 2**127, 2**255 - 19, (N - 1) // 2, (N + 1) // 2, N - 1]), st.integers(1, N - 1))


def _key_origin_bytes(c) -> bytes:
    return bytes.fromhex(c["fp"]) + b"".join(i.to_bytes(4, "little") for i in c["path"])


BIN: dict = {
    "tx": (_tx_strategy, _tx_bytes),
    "tx_valid": (lambda: st.fixed_dictionaries({"gen": g.valid_tx_case(max_in=3, max_out=3)}), _tx_bytes),
    "txin": (_txin_case, tx_ref.ser_txin),
    "txout": (lambda: g.tx_case(min_in=0, max_in=0, max_out=1).filter(lambda t: t["vout"]).map(lambda t: t["vout"][0]), tx_ref.ser_txout),
    "outpoint": (_txin_case, tx_ref.ser_outpoint),
    "witness": (lambda: st.lists(st.one_of(g.hexbytes(0, 40), st.sampled_from(["", "00", "50", "ab" * 64, "c0" + "11" * 32, "c1" + "11" * 64, "cd" * 253])), max_size=5), tx_ref.ser_witness),
    "script": (_script_strategy, _script_bytes),
    "header": (gp2p.header_case, _header_bytes),
    "block": (_small_block_strategy, _small_block_bytes),
    "psbt": (_psbt_strategy, _psbt_bytes),
    "psbt_in": (_psbt_map_strategy, _psbt_in_bytes),
    "psbt_out": (_psbt_map_strategy, _psbt_out_bytes),
    "psbt_map": (_psbt_map_strategy, _psbt_anymap_bytes),
    "leaf_script": (lambda: st.tuples(_script_strategy(), st.sampled_from([0xC0, 0xC2, 0x50, 0])).map(list), lambda c: _script_bytes(c[0]) + bytes([c[1]])),
    "taproot_tree": (lambda: st.lists(st.tuples(st.integers(0, 128), st.sampled_from([0xC0, 0xC2, 0xFE]), _script_strategy()).map(list), min_size=1, max_size=4),
                     lambda c: b"".join(bytes([d, v]) + tx_ref.ser_string(_script_bytes(s)) for d, v, s in c)),
    "taproot_bip32": (lambda: st.fixed_dictionaries({"leaves": st.lists(g.hex32(), max_size=3), "fp": g.hexbytes(4, 4), "path": st.lists(g.u32(), max_size=5)}),
                      lambda c: tx_ref.compact_size(len(c["leaves"])) + b"".join(bytes.fromhex(x) for x in c["leaves"]) + _key_origin_bytes(c)),
    "musig2_keys": (lambda: st.lists(st.integers(1, 2**64), min_size=1, max_size=4), lambda c: b"".join(pub_key_bytes(s) for s in c)),
    "key_origin": (lambda: st.fixed_dictionaries({"fp": g.hexbytes(4, 4), "path": st.lists(g.u32(), max_size=8)}), _key_origin_bytes),
    "xkey": (_xkey_strategy, _xkey_bytes),
    "der_sig": (lambda: st.tuples(_SCALARS, _SCALARS).map(list), lambda c: der_sig(c[0], c[1])),
    "der_sig_hashtype": (lambda: st.tuples(_SCALARS, _SCALARS, st.sampled_from([0, 1, 2, 3, 0x81, 0x82, 0x83, 4, 0x80, 0xFF])).map(list), lambda c: der_sig(c[0], c[1]) + bytes([c[2]])),
    "ssa_sig": (lambda: st.tuples(_SCALARS, _SCALARS).map(list), lambda c: pub_key_bytes(c[0], 2) + c[1].to_bytes(32, "big")),
    "bms_sig": (lambda: st.tuples(st.integers(27, 42), _SCALARS, _SCALARS).map(list), lambda c: bytes([c[0]]) + c[1].to_bytes(32, "big") + c[2].to_bytes(32, "big")),
    "envelope": (lambda: st.tuples(st.integers(1, 2**64), st.integers(1, 5), st.integers(0, 2**32)).map(list), lambda c: b"BIE1" + pub_key_bytes(c[0]) + expand(c[2], 16 * c[1]) + expand(c[2] + 1, 32)),
    "borromean": (lambda: st.tuples(st.lists(st.integers(1, 3), min_size=1, max_size=3), st.integers(0, 2**32)).map(list),
                  lambda c: expand(c[1], 32) + b"".join((1 + int.from_bytes(expand(c[1] + 1 + k, 32), "big") % (N - 1)).to_bytes(32, "big") for k in range(sum(c[0])))),
    "point": (lambda: st.tuples(st.integers(1, N - 1), st.integers(0, 1)).map(list), lambda c: pub_key_bytes(c[0], c[1])),
    "point_x": (lambda: st.tuples(st.integers(1, N - 1), st.integers(0, 2)).map(list), lambda c: pub_key_bytes(c[0], c[1])),
    "point_any": (lambda: st.tuples(st.integers(1, N - 1), st.integers(0, 3)).map(list), lambda c: pub_key_bytes(c[0], c[1])),
    "ellswift": (lambda: st.integers(0, 2**32), lambda c: expand(c, 64)),
    "gcs_filter": (lambda: st.tuples(st.integers(0, 2**32), st.integers(0, 6)).map(list), None),  # filled by the check (needs block_ref)
    "var_int": (lambda: st.sampled_from([0, 1, 0xFC, 0xFD, 0xFFFF, 0x10000, 0x2000000]), tx_ref.compact_size),
    "var_bytes": (lambda: g.hexbytes(0, 300), lambda c: tx_ref.ser_string(bytes.fromhex(c))),
    "bits": (lambda: st.sampled_from(["1d00ffff", "207fffff", "1b0404cb", "03123456", "01003456", "04923456", "00000000", "20ffffff"]), bytes.fromhex),
}
for _name in gp2p.PAYLOADS:
    BIN["p2p:" + _name] = _p2p(_name)


def _gcs_bytes(c) -> bytes:
    from vlib.models import block_ref

    seed, n = c
    elements = {expand(seed + i, 1 + (seed + i) % 30) for i in range(n)}
    return block_ref.gcs_filter(expand(seed, 32), elements)


BIN["gcs_filter"] = (BIN["gcs_filter"][0], _gcs_bytes)

_MS_CACHE: dict = {}


def _ms_script_bytes(i: int) -> bytes:
    """the script of a corpus miniscript, compiled by the library (a seed, not an oracle)"""
    if i not in _MS_CACHE:
        from btclib.descriptors import miniscript

        expr, ctx = CORPUS["miniscripts"][i]
        _MS_CACHE[i] = bytes(miniscript.parse(expr, ctx).script())
    return _MS_CACHE[i]


def ms_key_hashes(i: int) -> dict:
    """hash160 -> key for every key written in corpus miniscript i (what from_script needs to read a pk_h back)"""
    import re

    out = {}
    for k in re.findall(r"[0-9a-fA-F]{64,66}", CORPUS["miniscripts"][i][0]):
        raw = bytes.fromhex(k)
        if len(raw) in (32, 33):
            out[hashlib.new("ripemd160", hashlib.sha256(raw).digest()).digest()] = raw
    return out


BIN["ms_script"] = (lambda: _idx("miniscripts"), _ms_script_bytes)

# a fixed pool of valid encodings of many kinds: the "other" operand of a splice
SPLICE_POOL: list[bytes] = (
    [bytes.fromhex(x) for x in CORPUS["tx_hex"][:12]]
    + [base64.b64decode(x) for x in CORPUS["psbt_b64"][:12]]
    + [bytes.fromhex(CORPUS["block_hex"][0])]
    + [bytes.fromhex(s) for s in SCRIPTS[1:12]]
    + [b"\xff" * 9, b"\xfd\xfd\x00", b"\xfe\xff\xff\xff\xff", bytes(80), b"\x00\x01" + bytes(40)]
)


# ------------------------------------------------------------------------------------------- text kinds
def desc_checksum(body: str) -> str:
    """BIP380 descriptor checksum (transcribed from the BIP's reference code)."""
    INPUT = "0123456789()[],'/*abcdefgh@:$%{}IJKLMNOPQRSTUVWXYZ&+-.;<=>?!^_|~ijklmnopqrstuvwxyzABCDEFGH`#\"\\ "
    CHK = "qpzry9x8gf2tvdw0s3jn54khce6mua7l"
    GEN = [0xF5DEE51989, 0xA9FDCA3312, 0x1BAB10E32D, 0x3706B1677A, 0x644D626FFD]

    def polymod(c, val):
        c0 = c >> 35
        c = ((c & 0x7FFFFFFFF) << 5) ^ val
        for i in range(5):
            if c0 & (1 << i):
                c ^= GEN[i]
        return c

    c, cls, clscount = 1, 0, 0
    for ch in body:
        pos = INPUT.find(ch)
        if pos == -1:
            return ""
        c = polymod(c, pos & 31)
        cls = cls * 3 + (pos >> 5)
        clscount += 1
        if clscount == 3:
            c = polymod(c, cls)
            cls = clscount = 0
    if clscount > 0:
        c = polymod(c, cls)
    for _ in range(8):
        c = polymod(c, 0)
    c ^= 1
    return "".join(CHK[(c >> (5 * (7 - j))) & 31] for j in range(8))


def _corpus_text(name):
    return (lambda: _idx(name), lambda i: CORPUS[name][i])


URIS = [
    "bitcoin:1BvBMSEYstWetqTFn5Au4m4GFg7xJaNVN2",
    "bitcoin:1BvBMSEYstWetqTFn5Au4m4GFg7xJaNVN2?label=Luke-Jr",
    "bitcoin:1BvBMSEYstWetqTFn5Au4m4GFg7xJaNVN2?amount=20.3&label=Luke-Jr",
    "bitcoin:1BvBMSEYstWetqTFn5Au4m4GFg7xJaNVN2?amount=50&label=Luke-Jr&message=Donation%20for%20project%20xyz",
    "bitcoin:1BvBMSEYstWetqTFn5Au4m4GFg7xJaNVN2?somethingyoudontunderstand=50&somethingelseyoudontget=999",
    "BITCOIN:BC1QW508D6QEJXTDG4Y5R3ZARVARY0C5XW7KV8F3T4?amount=0.00000001",
    "bitcoin:bc1qw508d6qejxtdg4y5r3zarvary0c5xw7kv8f3t4?amount=21000000&message=100%25%20of%20it%20%26%20more",
    "bitcoin:tb1qw508d6qejxtdg4y5r3zarvary0c5xw7kxpjzsx?amount=.5&label=Alice+Bob",
    "bitcoin:3J98t1WpEZ73CNmQviecrnyiWrnqRhWNLy?amount=1.",
]
ORIGINS = ["deadbeef", "deadbeef/0", "d34db33f/44'/0'/0'", "00000000/2147483647h/1/2", "ffffffff/0H/1h/2'", "0f056943/84h/1h/0h/0/5"]
DER_PATHS = CORPUS["der_paths"] + ["m/0/1/2/3/4/5/6/7/8/9/10", "m/" + "/".join(["1"] * 255), "M/0", "m//0", "m/0x10", "/0", "m/ 1", "", "m/"]
INDEX_STRS = ["0", "1", "2147483647", "0h", "0'", "0H", "2147483647h", "12'", "44h", "1000000000"]
BIP44_PATHS = ["m/44h/0h/0h/0/0", "m/84h/0h/0h/0/5", "m/86h/0h/0h/1/0", "m/49'/0'/0'/0/3", "m/44'/0'/2147483647'/1/2147483647"]
BIP85_PATHS = ["m/83696968h/39h/0h/12h/0h", "m/83696968h/2h/0h", "m/83696968'/32'/0'", "m/83696968h/128169h/32h/0h", "m/83696968h/707764h/21h/0h", "m/83696968h/89101h/6h/10h/0h", "m/83696968h/828365h/1024h/0h"]
HEX_SEEDS = ["", "00", "0123456789abcdef", "ABCDEF", " 00ff ", "00" * 32, "00" * 31 + "01", "7f" * 32, "0c" * 32, "02" + "79be667ef9dcbbac55a06295ce870b07029bfcdb2dce28d959f2815b16f81798", "ff" * 80]
TXT: dict = {
    "descriptor": _corpus_text("descriptors"),
    "descriptor_invalid": _corpus_text("descriptors_invalid"),
    "miniscript": (lambda: _idx("miniscripts"), lambda i: CORPUS["miniscripts"][i][0]),
    "miniscript_invalid": _corpus_text("miniscripts_invalid"),
    "address": _corpus_text("addresses"),
    "wif": _corpus_text("wifs"),
    "xkey": _corpus_text("xkeys"),
    "sp_address": _corpus_text("sp_addresses"),
    "bip39": (lambda: _idx("bip39"), lambda i: CORPUS["bip39"][i][1]),
    "electrum": _corpus_text("electrum"),
    "slip39": (lambda: st.tuples(_idx("slip39"), st.integers(0, 7)).map(list), lambda c: CORPUS["slip39"][c[0]][c[1] % len(CORPUS["slip39"][c[0]])]),
    "uri": (lambda: st.integers(0, len(URIS) - 1), lambda i: URIS[i]),
    "origin": (lambda: st.integers(0, len(ORIGINS) - 1), lambda i: ORIGINS[i]),
    "der_path": (lambda: st.integers(0, len(DER_PATHS) - 1), lambda i: DER_PATHS[i]),
    "index_str": (lambda: st.integers(0, len(INDEX_STRS) - 1), lambda i: INDEX_STRS[i]),
    "bip44_path": (lambda: st.integers(0, len(BIP44_PATHS) - 1), lambda i: BIP44_PATHS[i]),
    "bip85_path": (lambda: st.integers(0, len(BIP85_PATHS) - 1), lambda i: BIP85_PATHS[i]),
    "psbt_b64": _corpus_text("psbt_b64"),
    "tx_hex": _corpus_text("tx_hex"),
    "hex": (lambda: st.integers(0, len(HEX_SEEDS) - 1), lambda i: HEX_SEEDS[i]),
}

__all__ = ["BIN", "TXT", "CORPUS", "SPLICE_POOL", "SCRIPTS", "desc_checksum", "expand", "pub_key_bytes", "der_sig", "psbt_maps", "psbt_version_of"]


# ------------------------------------------------------------------------------------------- more text kinds (library-made seeds, cached)
_LIB_CACHE: dict = {}
_WIF = "L3VFeEujGtevx9w18HD1fhRbCH67Az2dpCymeRE1SoPK6XQtaN2k"


def _bip322_sigs() -> list[str]:
    if "bip322" not in _LIB_CACHE:
        from btclib import b32, b58, bip322

        addrs = [b32.p2wpkh(_WIF), b58.p2wpkh_p2sh(_WIF), b58.p2pkh(_WIF)]
        try:
            from btclib.script.script_pub_key import ScriptPubKey

            addrs.append(ScriptPubKey.p2tr(_WIF).address)
        except Exception:  # noqa: BLE001
            pass
        out = []
        for a in addrs:
            for msg in (b"", b"Hello World"):
                out.append(bip322.sign(msg, _WIF, a).b64encode())
        _LIB_CACHE["bip322"] = out
    return _LIB_CACHE["bip322"]


def _electrum_old() -> list[str]:
    if "eold" not in _LIB_CACHE:
        from btclib.mnemonic import electrum

        _LIB_CACHE["eold"] = [electrum.old_mnemonic_from_hex_seed(h) for h in ("00" * 16, "0123456789abcdef" * 2, "ff" * 16, "acb740e454c3134901d7c8f16497cc1c", "00000000")]
    return _LIB_CACHE["eold"]


BOMB_N = (10, 100, 400, 1000, 3000, 10000)
_K = "0279be667ef9dcbbac55a06295ce870b07029bfcdb2dce28d959f2815b16f81798"
_KX = _K[2:]
_XPUB = "xpub661MyMwAqRbcFtXgS5sYJABqqG9YLmC4Q1Rdap9gSE8NqtwybGhePY2gZ29ESFjqJoCu1Rupje8YtGqsefD265TMg7usUDFdp6W1EGMcet8"
BOMBS_DESC = (
    lambda n: "sh(" * n + f"pk({_K})" + ")" * n,
    lambda n: "wsh(" * n + f"pk({_K})" + ")" * n,
    lambda n: "sh(wsh(" * n + f"pk({_K})" + "))" * n,
    lambda n: f"tr({_KX}," + "{" * n + f"pk({_KX})" + f",pk({_KX})}}" * n + ")",
    lambda n: f"tr({_KX}," + "{" * n + f"pk({_KX})" + "}" * n + ")",
    lambda n: f"tr({_KX}," + f"{{pk({_KX})," * n + f"pk({_KX})" + "}" * n + ")",
    lambda n: "wsh(" + "and_v(v:" * n + "1" + ",1)" * n + ")",
    lambda n: "wsh(" + "a" * n + ":1)",
    lambda n: "wsh(" + "tv" * n + ":1)",
    lambda n: "wsh(multi(1," + ",".join([_K] * n) + "))",
    lambda n: "wsh(sortedmulti(1," + ",".join([_K] * n) + "))",
    lambda n: f"tr({_KX},multi_a(1," + ",".join([_KX] * n) + "))",
    lambda n: f"pkh([deadbeef" + "/0" * n + f"]{_K})",
    lambda n: f"wpkh({_XPUB}" + "/0" * n + "/*)",
    lambda n: f"wpkh({_XPUB}/<" + ";".join(str(i) for i in range(n)) + ">/*)",
    lambda n: f"wpkh({_XPUB}" + "/<0;1>" * n + "/*)",
    lambda n: "(" * n,
    lambda n: "pk(" + ")" * n,
    lambda n: "raw(" + "00" * n + ")",
    lambda n: "addr(" + "1" * n + ")",
    lambda n: f"pk({_K})#" + "q" * n,
    lambda n: "wsh(thresh(1," + ",".join(["pk(" + _K + ")"] + ["s:pk(" + _K + ")"] * n) + "))",
    lambda n: "wsh(" + "or_i(0," * n + "1" + ")" * n + ")",
    lambda n: "wsh(" + "andor(1," * n + "1" + ",0)" * n + ")",
)
BOMBS_MS = (
    lambda n: "and_v(v:" * n + "1" + ",1)" * n,
    lambda n: "a" * n + ":1",
    lambda n: "tvn" * n + ":1",
    lambda n: "or_i(0," * n + "1" + ")" * n,
    lambda n: "or_i(" * n + "1" + ",0)" * n,
    lambda n: "andor(1," * n + "1" + ",0)" * n,
    lambda n: "thresh(1," + ",".join(["1"] + ["a:1"] * n) + ")",
    lambda n: "thresh(" + "9" * n + ",1)",
    lambda n: "multi(1," + ",".join([_K] * n) + ")",
    lambda n: "after(" + "1" * n + ")",
    lambda n: "sha256(" + "00" * n + ")",
    lambda n: "(" * n,
    lambda n: "and_b(" * n,
    lambda n: "1" + ")" * n,
    lambda n: "l:" * n + "1",
    lambda n: "pk(" + "[" * n + ")",
    lambda n: "c:" + "and_v(v:1," * n + f"pk_k({_K})" + ")" * n,
)
BOMBS_PATH = (
    lambda n: "m" + "/0" * n,
    lambda n: "m" + "/0h" * n,
    lambda n: "m/" + "1" * n,
    lambda n: "m" + "/" * n,
    lambda n: "/".join(["m"] * n),
    lambda n: "m/0" + "h" * n,
    lambda n: "deadbeef" + "/1'" * n,
)
BOMBS_URI = (
    lambda n: "bitcoin:1BvBMSEYstWetqTFn5Au4m4GFg7xJaNVN2?" + "&".join(f"a{i}=1" for i in range(n)),
    lambda n: "bitcoin:1BvBMSEYstWetqTFn5Au4m4GFg7xJaNVN2?amount=" + "1" * n,
    lambda n: "bitcoin:1BvBMSEYstWetqTFn5Au4m4GFg7xJaNVN2?amount=0." + "0" * n + "1",
    lambda n: "bitcoin:1BvBMSEYstWetqTFn5Au4m4GFg7xJaNVN2?label=" + "%41" * n,
    lambda n: "bitcoin:1BvBMSEYstWetqTFn5Au4m4GFg7xJaNVN2?label=" + "%" * n,
    lambda n: "bitcoin:" + "1" * n,
    lambda n: "bitcoin:1BvBMSEYstWetqTFn5Au4m4GFg7xJaNVN2" + "?" * n,
    lambda n: "bitcoin:1BvBMSEYstWetqTFn5Au4m4GFg7xJaNVN2?amount=1e" + "9" * min(n, 30),
)
BOMBS_WORDS = (
    lambda n: " ".join(["abandon"] * n),
    lambda n: " ".join(["academic"] * n),
    lambda n: "abandon" + " " * n + "about",
    lambda n: "a" * n,
    lambda n: " ".join(["zoo"] * (n - n % 3)),
)


BOMB_MAX_LEN = 1 << 17


def _bomb_text(shapes, c) -> str:
    """the nesting bomb of shape c[0] with n = c[1], n lowered until the text fits BOMB_MAX_LEN characters (a well-formed bomb, never a cut one)"""
    shape, n = shapes[c[0] % len(shapes)], c[1]
    text = shape(n)
    while len(text) > BOMB_MAX_LEN and n > 1:
        n = max(1, n * BOMB_MAX_LEN // len(text) - 1)
        text = shape(n)
    return text


def _bomb(shapes):
    return (lambda: st.tuples(st.integers(0, len(shapes) - 1), st.sampled_from(BOMB_N)).map(list), lambda c: _bomb_text(shapes, c))


def _b64_of(kind):
    strat, tob = BIN[kind]
    return (strat, lambda c: base64.b64encode(tob(c)).decode())


TXT.update({
    "bip322_sig": (lambda: st.integers(0, 7), lambda i: _bip322_sigs()[i % len(_bip322_sigs())]),
    "bms_sig_b64": _b64_of("bms_sig"),
    "envelope_b64": _b64_of("envelope"),
    "bip39_short": (lambda: st.integers(0, 3), lambda i: CORPUS["bip39"][i][1]),
    "electrum_short": (lambda: st.integers(0, 1), lambda i: CORPUS["electrum"][i]),
    "electrum_old": (lambda: st.integers(0, 4), lambda i: _electrum_old()[i]),
    "electrum_old_short": (lambda: st.integers(0, 1), lambda i: _electrum_old()[i]),
    "slip39_group": (lambda: st.sampled_from([0, 1, 3, 4, 16, 17, 19, 22, 35, 38]), lambda i: "\n".join(CORPUS["slip39"][i % len(CORPUS["slip39"])])),
    "bomb_desc": _bomb(BOMBS_DESC),
    "bomb_ms": _bomb(BOMBS_MS),
    "bomb_path": _bomb(BOMBS_PATH),
    "bomb_uri": _bomb(BOMBS_URI),
    "bomb_words": _bomb(BOMBS_WORDS),
})
BIN["bip322"] = (lambda: st.integers(0, 7), lambda i: base64.b64decode(_bip322_sigs()[i % len(_bip322_sigs())][3:]))

# ------------------------------------------------------------------------------------------- re-framings of checksummed text
B32 = "qpzry9x8gf2tvdw0s3jn54khce6mua7l"


def _b32_polymod(values):
    gen = (0x3B6A57B2, 0x26508E6D, 0x1EA119FA, 0x3D4233DD, 0x2A1462B3)
    chk = 1
    for v in values:
        b = chk >> 25
        chk = (chk & 0x1FFFFFF) << 5 ^ v
        for i in range(5):
            chk ^= gen[i] if (b >> i) & 1 else 0
    return chk


def bech32_split(s: str):
    """(hrp, data5 without checksum, const) of a well-formed bech32/bech32m string of any length, else None (BIP173 transcription)."""
    if s.lower() != s and s.upper() != s:
        return None
    s = s.lower()
    pos = s.rfind("1")
    if pos < 1 or pos + 7 > len(s) or any(ord(c) < 33 or ord(c) > 126 for c in s[:pos]) or any(c not in B32 for c in s[pos + 1 :]):
        return None
    hrp, data = s[:pos], [B32.find(c) for c in s[pos + 1 :]]
    const = _b32_polymod([ord(c) >> 5 for c in hrp] + [0] + [ord(c) & 31 for c in hrp] + data)
    return hrp, data[:-6], const


def bech32_join(hrp: str, data5: list[int], const: int) -> str:
    values = [ord(c) >> 5 for c in hrp] + [0] + [ord(c) & 31 for c in hrp] + list(data5)
    pm = _b32_polymod(values + [0] * 6) ^ const
    chk = [(pm >> 5 * (5 - i)) & 31 for i in range(6)]
    return hrp + "1" + "".join(B32[d] for d in list(data5) + chk)


def reframe_b58check(text: str, muts: list, other: bytes) -> str | None:
    from vlib.gens import hostile as H

    payload = base58_ref.check_decode(text)
    if payload is None:
        return None
    return base58_ref.check_encode(H.apply_bytes(payload, muts, other))


def reframe_bech32(text: str, muts: list, flip_const: bool) -> str | None:
    """mutate the 5-bit payload (witness version first), or the hrp, and recompute the checksum (optionally with the other constant)"""
    from vlib.gens import hostile as H

    parts = bech32_split(text)
    if parts is None:
        return None
    hrp, data5, const = parts
    raw = H.apply_bytes(bytes(data5), muts, bytes(range(32)))
    data5 = [b & 31 for b in raw]
    if muts and H.unpack(muts[0], H.BYTE_OPS)["val"] % 7 == 0:
        hrp = ("bc", "tb", "bcrt", "sp", "tsp", "BC", "b", "bc" * 45, "\x7f", "lnbc")[H.unpack(muts[0], H.BYTE_OPS)["n"] % 10]
    if flip_const:
        const = {1: 0x2BC830A3, 0x2BC830A3: 1}.get(const, 1)
    try:
        return bech32_join(hrp, data5, const)
    except (TypeError, ValueError):
        return None


# ------------------------------------------------------------------------------------------- BIP39 re-framing (BIP39's own algorithm)
_WORDLISTS: dict = {}


def _wordlist(lang: str) -> list[str]:
    """the 2048 words of a language, from the data file the library ships (data, not code under test)"""
    if lang not in _WORDLISTS:
        path = os.path.join(os.environ.get("VERIF_REPO", "/repo"), "btclib", "mnemonic", "_data", lang + ".txt")
        with open(path, encoding="utf-8") as f:
            _WORDLISTS[lang] = [w.strip() for w in f if w.strip()]
    return _WORDLISTS[lang]


def bip39_encode(entropy: bytes, lang: str = "english") -> str:
    """BIP39 'Generating the mnemonic': ENT bits + first ENT/32 bits of SHA256(ENT), in groups of 11 bits (for any byte length:
    the checksum length is floor(ENT/32) and leftover bits are dropped, so odd sizes give near-valid sentences)"""
    words = _wordlist(lang)
    ent = len(entropy) * 8
    cs = ent // 32
    bits = bin(int.from_bytes(entropy, "big"))[2:].zfill(ent) if ent else ""
    bits += bin(int.from_bytes(hashlib.sha256(entropy).digest(), "big"))[2:].zfill(256)[:cs]
    out = [words[int(bits[i : i + 11], 2)] for i in range(0, len(bits) - len(bits) % 11, 11)]
    return ("\u3000" if lang == "japanese" else " ").join(out)


def bip39_entropy(mnemonic: str, lang: str = "english") -> bytes | None:
    import unicodedata

    words = _wordlist(lang)
    index = {unicodedata.normalize("NFKD", w): i for i, w in enumerate(words)}
    try:
        idx = [index[unicodedata.normalize("NFKD", w)] for w in mnemonic.split()]
    except KeyError:
        return None
    bits = "".join(bin(i)[2:].zfill(11) for i in idx)
    ent = len(bits) * 32 // 33
    return int(bits[:ent], 2).to_bytes(ent // 8, "big") if ent else b""


def reframe_bip39(case_index: int, muts: list) -> str | None:
    from vlib.gens import hostile as H

    lang, mnemonic = CORPUS["bip39"][case_index % len(CORPUS["bip39"])]
    ent = bip39_entropy(mnemonic, lang)
    if ent is None:
        return None
    return bip39_encode(H.apply_bytes(ent, muts, b"\xff" * 32)[:128], lang)
