"""Build btclib objects from JSON cases (the harness's only constructor calls)."""

from __future__ import annotations

from btclib.script.script_pub_key import ScriptPubKey
from btclib.script.witness import Witness
from btclib.tx import OutPoint, Tx, TxIn, TxOut


def tx_in(i: dict, check_validity: bool = True) -> TxIn:
    return TxIn(
        OutPoint(bytes.fromhex(i["txid"]), i["vout"], check_validity=check_validity),
        bytes.fromhex(i["script_sig"]),
        i["sequence"],
        Witness([bytes.fromhex(w) for w in i.get("witness") or []], check_validity=check_validity),
        check_validity=check_validity,
    )


def tx_out(o: dict, check_validity: bool = True) -> TxOut:
    return TxOut(
        o["value"], ScriptPubKey(bytes.fromhex(o["spk"]), check_validity=check_validity), check_validity=check_validity
    )


def tx(case: dict, check_validity: bool = True) -> Tx:
    return Tx(
        case["version"],
        case["lock_time"],
        [tx_in(i, check_validity) for i in case["vin"]],
        [tx_out(o, check_validity) for o in case["vout"]],
        check_validity=check_validity,
    )
