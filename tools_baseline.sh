#!/bin/bash
# Runs the repository's pinned suite (guard off) and compares the passing set with BASELINE.json's stable_pass.
OUT=/root/scratch/baseline.junit.xml
cd /repo && env -u BTCLIB_VERIF /venv/bin/python -m pytest -ra -q -p no:cacheprovider --timeout=900 --continue-on-collection-errors --junitxml=$OUT >/root/scratch/baseline.log 2>&1
/venv/bin/python - <<PY
import json, xml.etree.ElementTree as ET
b=json.load(open('/root/.vp/BASELINE.json'))
want=set(b['stable_pass'])
got=set()
for tc in ET.parse('$OUT').getroot().iter('testcase'):
    if not any(c.tag in ('failure','error','skipped') for c in tc):
        got.add(f"{tc.get('classname')}::{tc.get('name')}")
missing=sorted(want-got)
print("baseline stable_pass:",len(want),"passing now:",len(got),"missing from passing:",len(missing))
for m in missing[:20]: print("  MISSING",m)
raise SystemExit(1 if missing else 0)
PY
