#!/venv/bin/python
"""Entry point: run_check.py Cxx [--tier quick|thorough] [--replay FILE] [--only a,b]"""
import importlib
import os
import sys

HERE = os.path.dirname(os.path.abspath(__file__))
REPO = os.environ.get("VERIF_REPO", "/repo")
if os.environ.get("PYTHONHASHSEED") != "0" and not os.environ.get("_VERIF_REEXEC"):
    # dict/set iteration order must not depend on the process
    os.environ["PYTHONHASHSEED"] = "0"
    os.environ["_VERIF_REEXEC"] = "1"
    os.execv(sys.executable, [sys.executable, *sys.argv])
sys.path.insert(0, HERE)
sys.path.insert(0, REPO)
deps = os.path.join(HERE, ".deps")
if os.path.isdir(deps):
    sys.path.append(deps)
os.environ.setdefault("BTCLIB_VERIF", "1")
sys.setrecursionlimit(3000)


def main() -> int:
    if len(sys.argv) < 2:
        print("usage: run_check.py Cxx [--tier quick|thorough] [--replay FILE]")
        return 2
    prop = sys.argv[1]
    try:
        from vlib import runner

        mod = importlib.import_module(f"checks.{prop}")
    except Exception as e:  # noqa: BLE001
        import traceback

        traceback.print_exc()
        print(f"HARNESS-ERROR property={prop} cannot import check: {type(e).__name__}: {e}")
        return 2
    return runner.main(mod, sys.argv[2:])


if __name__ == "__main__":
    sys.exit(main())
