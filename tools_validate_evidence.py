#!/usr/bin/env python3
"""python3-vt tools_validate_evidence.py — validates evidence/*.json against the schema."""
import json, glob, sys, jsonschema
sch = json.load(open("/root/.vp/EVIDENCE.schema.json"))
bad = 0
for f in sorted(glob.glob("/verif/evidence/*.json")):
    try:
        jsonschema.validate(json.load(open(f)), sch); print("ok ", f)
    except Exception as e:
        bad += 1; print("BAD", f, str(e)[:300])
sys.exit(1 if bad else 0)
