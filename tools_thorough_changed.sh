#!/bin/bash
# Thorough tier of the sub-checks added or changed in the review and third seeding rounds (a subset of tools_thorough_all.sh, for a last look).
cd "$(dirname "$0")"
bash setup.sh >/dev/null 2>&1
run() { echo "=== $* $(date +%H:%M:%S)"; VERIF_NO_EVIDENCE=1 /venv/bin/python run_check.py "$@" --tier thorough 2>&1 | grep -E "VIOLATION|KNOWN-FINDING|HARNESS|signature:|detail:|tier=" | cut -c1-300; }
run C09 --only psbt_paths,dispatch,legacy
run C02 --only der_writer,catalogue,catalogue_all,crack
run C01 --only hasse_bounds,toy_exhaustive,nt_big,sec_codec
run C17
run C11
run C12 --only depth_boundary,commitment_and_proofs,refusals
run C03 --only other_curves,codec,toy_truth,commit
run C08
run C05 --only keys_sigs,psbt,tx_bytes
run C06 --only keys,bip21
run C18 --only funding_worlds,funding_direct,estimate_dominates
run C20 --only nonce_once,software_signer,schedules
run C10 --only worlds
run C06 --only coverage_guided
run C14 --only coverage_guided
run C05 --only coverage_guided
run C15 --only coverage_guided,static
run C07 --only deep_paths,invalid_child
echo "=== done $(date +%H:%M:%S)"
