#!/bin/bash
# Run the thorough tier of the listed checks one after the other (for background use: vp run -- ./tools_thorough_all.sh C01 C02 ...).
# Evidence files are not touched (VERIF_NO_EVIDENCE=1); findings land in found/<id>/ of the directory it runs in.
cd "$(dirname "$0")"
for id in "$@"; do
  echo "=== $id $(date +%H:%M:%S)"
  VERIF_NO_EVIDENCE=1 /venv/bin/python run_check.py "$id" --tier thorough 2>&1 | grep -E "VIOLATION|KNOWN-FINDING|HARNESS|signature:|detail:|tier=" | cut -c1-400
done
echo "=== done $(date +%H:%M:%S)"
